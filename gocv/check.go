package main

// `gocv check`: decide one property = discharge every obligation that carries its tag (plus the
// helper obligations of the functions those clauses sit on), report, write evidence.

import (
	"encoding/json"
	"fmt"
	"os"
	"path/filepath"
	"sort"
	"strconv"
	"strings"
	"sync"
	"time"

	"golang.org/x/tools/go/ssa"
)

type Finding struct {
	Property   string `json:"property"`
	Obligation string `json:"obligation"`
	Status     string `json:"status"` // known | fixed
	What       string `json:"what"`
	Input      string `json:"input,omitempty"`
	Commit     string `json:"commit,omitempty"`
}

type Baseline struct {
	// property -> obligation name -> max ms seen when the baseline was taken
	Props map[string]map[string]int64 `json:"properties"`
}

func loadFindings(cfg Config) []Finding {
	var fs []Finding
	data, err := os.ReadFile(filepath.Join(cfg.Verif, "known_findings.json"))
	if err == nil {
		_ = json.Unmarshal(data, &fs)
	}
	return fs
}

func loadBaseline(cfg Config) *Baseline {
	b := &Baseline{Props: map[string]map[string]int64{}}
	data, err := os.ReadFile(filepath.Join(cfg.Verif, "baseline", "obligations.json"))
	if err == nil {
		_ = json.Unmarshal(data, b)
	}
	return b
}

func clauseTags(c *Contract) map[string]bool {
	tags := map[string]bool{}
	for _, cls := range [][]*Clause{c.Requires, c.Ensures, c.Invs, c.Asserts, c.OnPanic, c.LineHooks} {
		for _, cl := range cls {
			for _, t := range cl.Tags {
				tags[t] = true
			}
		}
	}
	if c.HasAssigns {
		tags["C12"] = true
		tags["C20"] = true
		for _, t := range c.FrameTags {
			tags[t] = true
		}
	}
	if c.Refines != "" {
		tags["C18"] = true
	}
	tags["C13"] = true // every function under contract takes part in the safety sweep
	return tags
}

func hasTag(tags []string, p string) bool {
	for _, t := range tags {
		if t == p {
			return true
		}
	}
	return false
}

// relevant: does obligation ob count for property p? Every obligation of a function selected for p does:
// the clauses of a function are proved in order, each under the assumption of the earlier ones, so a clause
// tagged p is only proved if the clauses before it - whatever their tags - are proved too (seeded change m52:
// a failing C02 clause made the C19 clause after it hold vacuously).
func relevant(ob *Obligation, p string) bool {
	return true
}

type oblSummary struct {
	Name     string `json:"name"`
	Kind     string `json:"kind"`
	Function string `json:"function"`
	Status   string `json:"status"`
	Solver   string `json:"solver"`
	Ms       int64  `json:"ms"`
	Paths    int    `json:"path_instances"`
	SMTBytes int    `json:"smt_bytes"`
	Tags     string `json:"tags"`
	Pos      string `json:"pos,omitempty"`
	worst    *Obligation
}

type propRun struct {
	prop      string
	reports   []*FuncReport
	summaries map[string]*oblSummary
	order     []string
	missing   []string // contracts whose function no longer exists
	wall      float64
	nodes     int
	trivial   int
	vacuity   map[string]int
	retried   int
	excluded  []string
}

func selectFunctions(p *Program, prop string) []string {
	var keys []string
	for k, c := range p.cs.Funcs {
		if c.Kind != "func" || c.Inline || c.Trusted != "" {
			continue
		}
		if prop == "" || clauseTags(c)[prop] || callsTaggedPrecondition(p, k, prop) {
			keys = append(keys, k)
		}
	}
	sort.Strings(keys)
	return keys
}

// callsTaggedPrecondition: the function (statically) calls a function under contract one of whose
// preconditions carries the property's tag: the call-site obligation then counts for the property.
func callsTaggedPrecondition(p *Program, key, prop string) bool {
	fn := p.funcs[key]
	if fn == nil {
		return false
	}
	seen := map[*ssa.Function]bool{}
	var scan func(f *ssa.Function, depth int) bool
	scan = func(f *ssa.Function, depth int) bool {
		if f == nil || seen[f] || depth > 3 {
			return false
		}
		seen[f] = true
		for _, b := range f.Blocks {
			for _, ins := range b.Instrs {
				call, ok := ins.(ssa.CallInstruction)
				if !ok {
					continue
				}
				callee := call.Common().StaticCallee()
				if callee == nil {
					continue
				}
				cc := p.cs.Funcs[funcKey(callee)]
				if cc == nil {
					// no contract: the callee is inlined, its call sites count as well
					if scan(callee, depth+1) {
						return true
					}
					continue
				}
				for _, cl := range cc.Requires {
					if hasTag(cl.Tags, prop) {
						return true
					}
				}
			}
		}
		// closures created by the function (once.Do bodies) are inlined
		for _, af := range f.AnonFuncs {
			if p.cs.Funcs[funcKey(af)] == nil && scan(af, depth+1) {
				return true
			}
		}
		return false
	}
	return scan(fn, 0)
}

func runProperty(p *Program, prop string, budget int, known map[string]bool, base map[string]int64) *propRun {
	t0 := time.Now()
	pr := &propRun{prop: prop, summaries: map[string]*oblSummary{}}
	keys := selectFunctions(p, prop)
	for _, k := range keys {
		fn := p.funcs[k]
		if fn == nil {
			pr.missing = append(pr.missing, k)
			continue
		}
		rep := p.verifyFunction(fn, p.cs.Funcs[k])
		pr.reports = append(pr.reports, rep)
	}
	if prop == "" || prop == "C13" {
		pr.reports = append(pr.reports, goSpawnReport(p))
	}
	// discharge all relevant obligations with one worker pool
	type job struct {
		rep *FuncReport
		ob  *Obligation
	}
	var jobs []job
	for _, rep := range pr.reports {
		x := rep.exec
		if x == nil {
			pr.trivial += rep.Trivial
			for _, ob := range rep.Obls {
				if prop == "" || relevant(ob, prop) {
					jobs = append(jobs, job{rep, ob})
				}
			}
			continue
		}
		var gf strings.Builder
		for _, n := range x.globalFunOrder {
			sig := x.globalFuns[n]
			i := strings.LastIndex(sig, ") ")
			fmt.Fprintf(&gf, "(declare-fun %s %s %s)\n", n, sig[:i+1], sig[i+2:])
		}
		x.extraDecls = gf.String()
		pr.trivial += rep.Trivial
		for _, ob := range rep.Obls {
			if prop == "" || relevant(ob, prop) {
				jobs = append(jobs, job{rep, ob})
			}
		}
	}
	pr.nodes = len(jobs)
	var wg sync.WaitGroup
	sem := make(chan struct{}, 16)
	// vacuity guard: the preconditions (and global assumptions) of every function must be satisfiable;
	// only a definite `unsat` is a failure (quantified formulas rarely give `sat`)
	for _, rep := range pr.reports {
		rep := rep
		if rep.exec == nil || rep.exec.reqNode == nil || rep.Aborted != "" {
			continue
		}
		wg.Add(1)
		sem <- struct{}{}
		go func() {
			defer wg.Done()
			defer func() { <-sem }()
			q := rep.exec.buildFeasibility(rep.exec.reqNode)
			r := runSolver(solvers[0], q, 2, false)
			rep.ReqSat = r.Status
			if r.Status != "unsat" && r.Status != "sat" {
				rep.ReqSat = "no-contradiction-found"
			}
		}()
	}
	for _, j := range jobs {
		j := j
		wg.Add(1)
		sem <- struct{}{}
		go func() {
			defer wg.Done()
			defer func() { <-sem }()
			if j.ob.pre {
				return
			}
			if known[j.ob.Name] {
				// a recorded, unrepaired defect: one short attempt (it is reported as KNOWN-FINDING
				// unless it discharges, i.e. unless the defect has been repaired)
				r := solve(j.rep.exec.buildQuery(j.ob.node), 3, false)
				j.ob.result = r
				j.ob.status = r.Status
				return
			}
			r := j.rep.exec.solveObligation(j.ob.node, budget)
			j.ob.result = r
			j.ob.status = r.Status
		}()
	}
	wg.Wait()
	// Second attempt for obligations that the baseline tree discharges but that came out undecided
	// (timeout/unknown, never `sat`): solver run time varies from run to run, and an undecided answer
	// within the quick budget must not be reported as a violation before a longer attempt has failed too.
	if base != nil && os.Getenv("GOCV_NO_SECOND_ATTEMPT") == "" {
		for _, j := range jobs {
			j := j
			if j.ob.pre || j.ob.node == nil || j.ob.status == "unsat" || j.ob.status == "sat" || known[j.ob.Name] {
				continue
			}
			if _, ok := base[j.ob.Name]; !ok {
				continue
			}
			pr.retried++
			wg.Add(1)
			sem <- struct{}{}
			go func() {
				defer wg.Done()
				defer func() { <-sem }()
				first := j.ob.result.Ms
				r := j.rep.exec.solveObligation(j.ob.node, 90)
				r.Ms += first
				if r.Status == "unsat" {
					r.Solver += "(second attempt)"
				}
				j.ob.result = r
				j.ob.status = r.Status
			}()
		}
		wg.Wait()
	}
	for _, j := range jobs {
		ob := j.ob
		s := pr.summaries[ob.Name]
		if s == nil {
			s = &oblSummary{Name: ob.Name, Kind: ob.Kind, Function: ob.Func, Status: ob.status, Solver: ob.result.Solver, Tags: strings.Join(ob.Tags, ","), Pos: ob.Pos, worst: ob}
			pr.summaries[ob.Name] = s
			pr.order = append(pr.order, ob.Name)
		}
		s.Paths++
		if ob.result.Ms > s.Ms {
			s.Ms = ob.result.Ms
		}
		// worst status wins: sat > unknown/timeout/error > unsat
		rank := func(st string) int {
			switch st {
			case "unsat":
				return 0
			case "sat":
				return 3
			}
			return 2
		}
		if rank(ob.status) > rank(s.Status) {
			s.Status = ob.status
			s.Solver = ob.result.Solver
			s.worst = ob
		}
	}
	sort.Strings(pr.order)
	pr.wall = time.Since(t0).Seconds()
	return pr
}

func budgetFor(tier string) int {
	if tier == "thorough" {
		return 60
	}
	return 12
}

func cmdBaseline(cfg Config) int {
	p, err := loadProgram(cfg.Repo, cfg.Specs)
	if err != nil {
		fmt.Fprintln(os.Stderr, "load:", err)
		return 2
	}
	b := &Baseline{Props: map[string]map[string]int64{}}
	pr := runProperty(p, "", 30, nil, nil)
	for _, rep := range pr.reports {
		if rep.Aborted != "" {
			fmt.Printf("ABORTED %s: %s\n", rep.Key, rep.Aborted)
		}
	}
	props := allProps()
	for _, name := range pr.order {
		s := pr.summaries[name]
		if s.Status != "unsat" {
			fmt.Printf("NOT-DISCHARGED %s [%s]\n", name, s.Status)
			continue
		}
		for _, prop := range props {
			c := p.cs.Funcs[s.Function]
			if s.Kind == "go" {
				if prop == "C13" {
					if b.Props[prop] == nil {
						b.Props[prop] = map[string]int64{}
					}
					b.Props[prop][name] = 0
				}
				continue
			}
			if c == nil || !(clauseTags(c)[prop] || callsTaggedPrecondition(p, s.Function, prop)) {
				continue
			}
			if relevant(s.worst, prop) {
				if b.Props[prop] == nil {
					b.Props[prop] = map[string]int64{}
				}
				b.Props[prop][name] = s.Ms
			}
		}
	}
	os.MkdirAll(filepath.Join(cfg.Verif, "baseline"), 0o755)
	data, _ := json.MarshalIndent(b, "", " ")
	if err := os.WriteFile(filepath.Join(cfg.Verif, "baseline", "obligations.json"), data, 0o644); err != nil {
		fmt.Fprintln(os.Stderr, err)
		return 2
	}
	n := 0
	for _, m := range b.Props {
		n += len(m)
	}
	fmt.Printf("baseline written: %d property-obligation pairs, %d distinct obligations, wall %.1fs\n", n, len(pr.order), pr.wall)
	return 0
}

func allProps() []string {
	var ps []string
	for i := 1; i <= 20; i++ {
		ps = append(ps, fmt.Sprintf("C%02d", i))
	}
	return ps
}

func cmdCheck(cfg Config, prop, tier string) int {
	t0 := time.Now()
	if prop == "" {
		fmt.Fprintln(os.Stderr, "check: -prop required")
		return 2
	}
	if v := os.Getenv("VERIF_TIER"); v == "thorough" || v == "quick" {
		if tier == "" {
			tier = v
		}
	}
	seed := 0
	if v := os.Getenv("VERIF_SEED"); v != "" {
		seed, _ = strconv.Atoi(v)
	}
	p, err := loadProgram(cfg.Repo, cfg.Specs)
	if err != nil {
		// a tree that does not load cannot be verified: every baseline obligation is undischarged
		fmt.Println("load error:", err)
		rp := writeReplay(cfg, prop, "load", map[string]interface{}{"obligation": "load:/repo", "error": err.Error()})
		fmt.Printf("VIOLATION property=%s replay=%s no-failing-input-found\n", prop, rp)
		return 1
	}
	findings := loadFindings(cfg)
	base := loadBaseline(cfg).Props[prop]
	known := map[string]Finding{}
	knownOther := map[string]string{} // recorded under another property: reported by that property's check only
	knownNames := map[string]bool{}
	for _, f := range findings {
		// a recorded defect is the same defect under whichever property's check meets its obligation
		// (every obligation of a selected function counts for the property, see relevant())
		if f.Status == "known" {
			knownNames[f.Obligation] = true
			if f.Property == prop {
				known[f.Obligation] = f
			} else {
				knownOther[f.Obligation] = f.Property
			}
		}
	}
	pr := runProperty(p, prop, budgetFor(tier), knownNames, base)
	violations := 0
	discharged := 0
	var undecided []string
	var knownHit []string
	seen := map[string]bool{}
	aborted := map[string]string{}
	for _, rep := range pr.reports {
		if rep.Aborted != "" {
			aborted[rep.Key] = rep.Aborted
		}
	}
	vac := map[string]int{}
	var vacuous []string
	for _, rep := range pr.reports {
		st := rep.ReqSat
		if st == "" {
			st = "not-checked"
		}
		vac[st]++
		if rep.ReqSat == "unsat" {
			vacuous = append(vacuous, rep.Key)
		}
	}
	pr.vacuity = vac
	report := func(name, why string, s *oblSummary, hasCex bool) {
		if f, ok := known[name]; ok {
			fmt.Printf("KNOWN-FINDING: property=%s %s %s\n", prop, name, f.What)
			knownHit = append(knownHit, name)
			return
		}
		violations++
		payload := map[string]interface{}{"property": prop, "obligation": name, "reason": why}
		if s != nil && s.worst != nil && s.worst.node == nil {
			payload["function"] = s.Function
			payload["kind"] = s.Kind
			payload["pos"] = s.Pos
			payload["solver_status"] = s.Status
			payload["solver"] = s.Solver
			payload["solver_output"] = s.worst.result.Raw
		} else if s != nil && s.worst != nil {
			x := findExec(pr, s.worst)
			q := x.buildQuery(s.worst.node)
			payload["function"] = s.Function
			payload["kind"] = s.Kind
			payload["pos"] = s.Pos
			payload["solver_status"] = s.Status
			payload["solver"] = s.Solver
			payload["solver_output"] = s.worst.result.Raw
			if s.Status == "sat" {
				r := solve(q, 20, true)
				payload["model"] = r.Model
				payload["solver_output"] = r.Raw
			}
			payload["query_smt2"] = q
		}
		rp := writeReplay(cfg, prop, name, payload)
		suffix := " no-failing-input-found"
		if hasCex {
			if ok := tryReplay(cfg, p, findExec(pr, s.worst), prop, name, s, payload, rp); ok {
				suffix = ""
			}
		}
		fmt.Printf("VIOLATION property=%s replay=%s%s\n", prop, rp, suffix)
	}
	for _, k := range vacuous {
		report(k+"#requires-sat:preconditions-satisfiable", "the preconditions assumed for this function are contradictory: every obligation of it holds vacuously", nil, false)
	}
	var excluded []string
	for _, name := range pr.order {
		s := pr.summaries[name]
		seen[name] = true
		if op, ok := knownOther[name]; ok && s.Status != "unsat" {
			// a recorded defect that belongs to another property's statement: that property's check reports it
			excluded = append(excluded, name+" (known finding of "+op+")")
			continue
		}
		switch s.Status {
		case "unsat":
			discharged++
		case "sat":
			report(name, "solver found a counterexample to the obligation", s, true)
		default:
			if _, inBase := base[name]; inBase {
				report(name, "obligation discharged on the baseline tree is no longer discharged ("+s.Status+")", s, false)
			} else if _, ok := known[name]; ok {
				report(name, "", s, false)
			} else if s.Kind == "effect" {
				// the frame rule is syntactic: a call that hands shared state to an unverified callee is
				// allowed only where it is provably unreachable
				report(name, "an unverified callee receives shared mutable state ("+s.Status+")", s, false)
			} else {
				fmt.Printf("UNDECIDED obligation=%s status=%s\n", name, s.Status)
				undecided = append(undecided, name)
			}
		}
	}
	// baseline obligations that were not generated at all
	var baseNames []string
	for n := range base {
		baseNames = append(baseNames, n)
	}
	sort.Strings(baseNames)
	for _, n := range baseNames {
		if seen[n] {
			continue
		}
		fn := n[:strings.Index(n, "#")]
		kind := n[strings.Index(n, "#")+1:]
		kind = kind[:strings.Index(kind, ":")]
		if why, ab := aborted[fn]; ab {
			report(n, "function left the verifiable subset: "+why, nil, false)
			continue
		}
		gone := false
		for _, m := range pr.missing {
			if m == fn {
				gone = true
			}
		}
		if gone {
			report(n, "function under contract no longer exists", nil, false)
			continue
		}
		switch kind {
		case "ensures", "assert", "invariant-init", "invariant-pres":
			report(n, "contract clause produced no obligation (no path reaches it)", nil, false)
		}
	}
	for _, m := range pr.missing {
		anyBase := false
		for n := range base {
			if strings.HasPrefix(n, m+"#") {
				anyBase = true
			}
		}
		if !anyBase {
			fmt.Printf("NOTE contract without function: %s\n", m)
		}
	}
	pr.excluded = excluded
	writeEvidence(cfg, p, pr, tier, seed, violations, discharged, undecided, knownHit, time.Since(t0).Seconds())
	if violations > 0 {
		return 1
	}
	fmt.Printf("OK property=%s obligations=%d discharged=%d known_findings=%d undecided=%d functions=%d wall=%.1fs\n",
		prop, len(pr.order)-len(knownHit)-len(excluded), discharged, len(knownHit), len(undecided), len(pr.reports), time.Since(t0).Seconds())
	return 0
}

func findExec(pr *propRun, ob *Obligation) *Exec {
	for _, rep := range pr.reports {
		if rep.Key == ob.Func {
			return rep.exec
		}
	}
	return nil
}

func writeReplay(cfg Config, prop, name string, payload map[string]interface{}) string {
	dir := filepath.Join(cfg.Verif, "replays", prop)
	if d := os.Getenv("GOCV_SELFTEST_DIR"); d != "" {
		// must-fail self-test on a scratch copy: nothing is written into /verif
		dir = filepath.Join(d, "replays", prop)
	}
	os.MkdirAll(dir, 0o755)
	fn := sanitize(name)
	if len(fn) > 120 {
		fn = fn[:120]
	}
	path := filepath.Join(dir, fn+".json")
	data, _ := json.MarshalIndent(payload, "", " ")
	os.WriteFile(path, data, 0o644)
	return path
}

func writeEvidence(cfg Config, p *Program, pr *propRun, tier string, seed, violations, discharged int, undecided, knownHit []string, wall float64) {
	if os.Getenv("GOCV_SELFTEST_DIR") != "" {
		return
	}
	type ev struct {
		PropertyID  string                 `json:"property_id"`
		Tier        string                 `json:"tier"`
		Seed        int                    `json:"seed"`
		Level       string                 `json:"level"`
		Coverage    map[string]interface{} `json:"coverage"`
		Assumptions []string               `json:"assumptions"`
		WallS       float64                `json:"wall_s"`
		Violations  int                    `json:"violations"`
	}
	byBackend := map[string]int{}
	var totalMs int64
	var samples []interface{}
	var funcs []map[string]interface{}
	notes := map[string]bool{}
	unknown := map[string]bool{}
	mayPanic := map[string]bool{}
	typeInvs := map[string]bool{}
	for _, rep := range pr.reports {
		f := map[string]interface{}{"function": rep.Key, "paths": rep.Paths, "return_paths": rep.Returns, "obligation_instances": len(rep.Obls), "trivially_true": rep.Trivial}
		if rep.Aborted != "" {
			f["outside_subset"] = rep.Aborted
		}
		funcs = append(funcs, f)
		for _, n := range rep.Notes {
			notes[n] = true
		}
		for _, n := range rep.Unknown {
			unknown[n] = true
		}
		for _, n := range rep.MayPanic {
			mayPanic[n] = true
		}
		for _, n := range rep.TypeInvs {
			typeInvs[n] = true
		}
	}
	for _, name := range pr.order {
		s := pr.summaries[name]
		byBackend[s.Solver]++
		totalMs += s.Ms
		if s.worst != nil {
			if x := findExec(pr, s.worst); x != nil && s.worst.node != nil && len(samples) < 400 {
				s.SMTBytes = len(x.buildQuery(s.worst.node))
			}
		}
		if len(samples) < 400 {
			samples = append(samples, s)
		}
	}
	// assumed contracts actually used
	var trusted []string
	var externs []string
	for k, c := range p.cs.Funcs {
		if c.Kind == "extern" || c.Kind == "interface" {
			externs = append(externs, c.Kind+" "+k)
		}
		if c.Trusted != "" {
			trusted = append(trusted, "trusted "+k+": "+c.Trusted)
		}
	}
	sort.Strings(externs)
	sort.Strings(trusted)
	tb := []string{
		"golang.org/x/tools/go/ssa v0.29.0 (naive form) as the front end",
		"gocv's symbolic semantics of the Go subset (DESIGN.md 2.2, Appendix C)",
		"solvers: z3 4.8.12, z3-new 5.1.0, cvc5 1.0 (first definite answer wins)",
		"integers are mathematical (no overflow); unsigned arithmetic wraps",
		"float64 + - * / are uninterpreted over bit patterns; comparisons/NaN tests are IEEE",
		"strings are order-preserving integer codes; concatenation/formatting uninterpreted",
		"sync.Once/Mutex/WaitGroup are sequential no-ops; goroutines and channels are abstracted sequentially (send/close panic rules, arbitrary receives and select cases, `go f` = check f's preconditions and havoc f's frame): blocking, interleavings and races are not modelled; no other goroutine closes a channel a verified body sends on",
		"a slice never grows beyond the largest int (out-of-memory is not modelled)",
	}
	assumptions := append([]string{}, tb...)
	assumptions = append(assumptions, fmt.Sprintf("%d assumed extern/interface contracts (specs/*.spec): %s", len(externs), strings.Join(externs, "; ")))
	assumptions = append(assumptions, trusted...)
	for _, a := range p.cs.Assumes {
		assumptions = append(assumptions, "assume "+a.Src)
	}
	for n := range typeInvs {
		assumptions = append(assumptions, "type invariant assumed: "+n)
	}
	for n := range unknown {
		assumptions = append(assumptions, "callee without contract treated as effect-free with unconstrained results: "+n)
	}
	for n := range mayPanic {
		assumptions = append(assumptions, "callee may panic (not modelled as a path): "+n)
	}
	for n := range notes {
		assumptions = append(assumptions, "note: "+n)
	}
	sort.Strings(assumptions[len(tb):])
	cov := map[string]interface{}{
		// obligations listed in known_findings.json (genuine, recorded defects) are reported separately
		// and are not part of the proof claim
		"obligations":              len(pr.order) - len(knownHit) - len(pr.excluded),
		"excluded_known_findings_of_other_properties": pr.excluded,
		"discharged":               discharged,
		"checker_cmd":              fmt.Sprintf("/verif/check %s --tier %s", pr.prop, tier),
		"trusted_base":             tb,
		"samples":                  samples,
		"functions_under_contract": funcs,
		"by_backend":               byBackend,
		"solver_ms_total":          totalMs,
		"obligation_instances":     pr.nodes,
		"trivially_true_instances": pr.trivial,
		"undecided":                undecided,
		"known_findings_hit":       knownHit,
		"bounded":                  []string{},
		"missing_functions":        pr.missing,
		"second_attempts":          pr.retried,
		"vacuity_guard":            map[string]interface{}{"what": "satisfiability of each function's preconditions plus global assumptions (definite unsat = failure)", "functions_by_answer": pr.vacuity},
	}
	e := ev{PropertyID: pr.prop, Tier: tier, Seed: seed, Level: "proof", Coverage: cov, Assumptions: assumptions, WallS: wall, Violations: violations}
	os.MkdirAll(filepath.Join(cfg.Verif, "evidence"), 0o755)
	data, _ := json.MarshalIndent(e, "", " ")
	os.WriteFile(filepath.Join(cfg.Verif, "evidence", pr.prop+".json"), data, 0o644)
}

func cmdReplay(cfg Config, prop, path string) int {
	data, err := os.ReadFile(path)
	if err != nil {
		fmt.Fprintln(os.Stderr, err)
		return 2
	}
	var payload map[string]interface{}
	if err := json.Unmarshal(data, &payload); err != nil {
		fmt.Fprintln(os.Stderr, err)
		return 2
	}
	fmt.Printf("replay %s: obligation %v\n", path, payload["obligation"])
	if q, ok := payload["query_smt2"].(string); ok {
		r := solve(q, 20, true)
		fmt.Printf("solver: %s (%s)\n%s\n", r.Status, r.Solver, r.Model)
		if r.Status == "unsat" {
			fmt.Println("obligation is discharged by this query")
			return 0
		}
	}
	if t, ok := payload["go_test"].(string); ok {
		fmt.Println("generated test:\n" + t)
		if fnKey, ok := payload["function"].(string); ok {
			if out, panicked, err := runReplayTest(cfg, fnKey, t); err == nil {
				fmt.Println("replay on the real code (go test -overlay):\n" + out)
				if !panicked {
					fmt.Println("the recorded inputs no longer make the real code panic")
					return 0
				}
			}
		}
	}
	if prop == "" {
		prop, _ = payload["property"].(string)
	}
	fmt.Printf("VIOLATION property=%s replay=%s\n", prop, path)
	return 1
}

// goSpawnReport: the spawn sweep (C13). Every `go` statement in the non-test code of the repository starts
// a panic domain of its own. For each of them there is one obligation, decided structurally: the spawned
// function is under a contract that does not declare `panics may` - so that either gocv proves that no
// panic escapes it (its `panic:` obligations), or the contract is `trusted` and listed as an assumption.
// A go statement whose target cannot be resolved, has no contract, or may panic fails the obligation.
func goSpawnReport(p *Program) *FuncReport {
	rep := &FuncReport{Key: "(go statements)"}
	var fns []*ssa.Function
	for _, fn := range p.funcs {
		if pk := fn.Package(); pk != nil && pk.Pkg != nil && strings.HasPrefix(pk.Pkg.Path(), modulePrefix) {
			fns = append(fns, fn)
		}
	}
	sort.Slice(fns, func(i, j int) bool { return funcKey(fns[i]) < funcKey(fns[j]) })
	seen := map[*ssa.Function]bool{}
	var visit func(fn *ssa.Function)
	visit = func(fn *ssa.Function) {
		if seen[fn] {
			return
		}
		seen[fn] = true
		ord := 0
		for _, b := range fn.Blocks {
			for _, in := range b.Instrs {
				g, ok := in.(*ssa.Go)
				if !ok {
					continue
				}
				ord++
				target := "?"
				status, why := "sat", "the spawned function cannot be resolved statically"
				var callee *ssa.Function
				if !g.Call.IsInvoke() {
					switch v := g.Call.Value.(type) {
					case *ssa.Function:
						callee = v
					case *ssa.MakeClosure:
						callee, _ = v.Fn.(*ssa.Function)
					}
				}
				if callee != nil {
					target = shortKey(funcKey(callee))
					ct := p.cs.Funcs[funcKey(callee)]
					switch {
					case ct == nil || ct.Inline:
						why = "the spawned function is not under contract: nothing shows that it contains its panics"
					case ct.Panics == "may":
						why = "the contract of the spawned function declares `panics may`: a panic would end the process"
					case ct.Trusted != "":
						status, why = "unsat", "assumed (trusted contract): "+ct.Trusted
					default:
						status, why = "unsat", "the spawned function is verified without `panics may`: an escaping panic is a failed obligation of it"
					}
				}
				name := fmt.Sprintf("%s#go:%s", funcKey(fn), target)
				if ord > 1 {
					name = fmt.Sprintf("%s#go:%s#%d", funcKey(fn), target, ord)
				}
				ob := &Obligation{Name: name, Kind: "go", Func: rep.Key, Tags: []string{"C13"}, Pos: p.posString(g.Pos()), pre: true}
				ob.status = status
				ob.result = SolveResult{Status: status, Solver: "structural", Raw: why}
				rep.Obls = append(rep.Obls, ob)
			}
		}
		for _, af := range fn.AnonFuncs {
			visit(af)
		}
	}
	for _, fn := range fns {
		visit(fn)
	}
	return rep
}
