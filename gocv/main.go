package main

import (
	"flag"
	"fmt"
	"os"
	"sort"
	"strings"
)

func main() {
	repo := flag.String("repo", "/repo", "repository root")
	specs := flag.String("specs", "/verif/specs", "directory with assumed contracts (*.spec)")
	fnFilter := flag.String("func", "", "verify only functions whose key contains this text")
	dump := flag.Bool("dump", false, "dump queries of failed obligations")
	budget := flag.Int("budget", 10, "per-solver time limit (s) for the long attempts")
	flag.Parse()
	initScratch()
	defer cleanupScratch()
	p, err := loadProgram(*repo, *specs)
	if err != nil {
		fmt.Fprintln(os.Stderr, "load:", err)
		os.Exit(2)
	}
	var keys []string
	for k, c := range p.cs.Funcs {
		if c.Kind == "func" && !c.Inline && c.Trusted == "" && strings.Contains(k, *fnFilter) {
			keys = append(keys, k)
		}
	}
	sort.Strings(keys)
	for _, k := range keys {
		fn := p.funcs[k]
		if fn == nil {
			fmt.Printf("MISSING %s\n", k)
			continue
		}
		rep := p.verifyFunction(fn, p.cs.Funcs[k])
		p.discharge(rep, *budget, 16)
		fmt.Printf("== %s: paths=%d returns=%d obligations=%d trivial=%d aborted=%q\n", k, rep.Paths, rep.Returns, len(rep.Obls), rep.Trivial, rep.Aborted)
		for _, n := range rep.Notes {
			fmt.Println("   note:", n)
		}
		agg := map[string]string{}
		for _, ob := range rep.Obls {
			prev, ok := agg[ob.Name]
			if !ok || prev == "unsat" {
				agg[ob.Name] = ob.status
			}
			if ob.status != "unsat" && *dump {
				fmt.Printf("---- %s [%s]\n%s\n%s\n", ob.Name, ob.status, rep.exec.buildQuery(ob.node), ob.result.Raw)
			}
		}
		var names []string
		for n := range agg {
			names = append(names, n)
		}
		sort.Strings(names)
		for _, n := range names {
			fmt.Printf("   %-8s %s\n", agg[n], n)
		}
	}
}
