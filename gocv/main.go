package main

import (
	"flag"
	"fmt"
	"os"
	"sort"
	"strings"

	"golang.org/x/tools/go/ssa"
)

func usage() {
	fmt.Fprintln(os.Stderr, `usage:
  gocv dev      [-func substr] [-dump]            verify functions, print obligations (development)
  gocv check    -prop Cnn [-tier quick|thorough]  decide one property, write evidence, exit 0/1
  gocv baseline                                    rewrite /verif/baseline/obligations.json (maintainer command)
  gocv list                                        list contracts and their property tags`)
	os.Exit(2)
}

type Config struct {
	Repo, Specs, Verif string
}

func main() {
	if len(os.Args) < 2 {
		usage()
	}
	cmd := os.Args[1]
	fs := flag.NewFlagSet(cmd, flag.ExitOnError)
	repo := fs.String("repo", "/repo", "repository root")
	verif := fs.String("verif", "/verif", "verification root")
	fnFilter := fs.String("func", "", "only functions whose key contains this text")
	dump := fs.Bool("dump", false, "dump queries of undischarged obligations")
	budget := fs.Int("budget", 10, "per-solver time limit (s) for the long attempts")
	prop := fs.String("prop", "", "property id")
	tier := fs.String("tier", "quick", "quick|thorough")
	replay := fs.String("replay", "", "replay file to re-run")
	fs.Parse(os.Args[2:])
	cfg := Config{Repo: *repo, Specs: *verif + "/specs", Verif: *verif}
	initScratch()
	code := 0
	func() {
		defer cleanupScratch()
		switch cmd {
		case "dev":
			code = cmdDev(cfg, *fnFilter, *dump, *budget)
		case "check":
			if *replay != "" {
				code = cmdReplay(cfg, *prop, *replay)
			} else {
				code = cmdCheck(cfg, *prop, *tier)
			}
		case "baseline":
			code = cmdBaseline(cfg)
		case "list":
			code = cmdList(cfg)
		case "loops":
			code = cmdLoops(cfg, *fnFilter)
		case "funcs":
			code = cmdFuncs(cfg, *fnFilter)
		case "frames":
			code = cmdFrames(cfg)
		default:
			usage()
		}
	}()
	os.Exit(code)
}

func cmdDev(cfg Config, fnFilter string, dump bool, budget int) int {
	p, err := loadProgram(cfg.Repo, cfg.Specs)
	if err != nil {
		fmt.Fprintln(os.Stderr, "load:", err)
		return 2
	}
	var keys []string
	for k, c := range p.cs.Funcs {
		if c.Kind == "func" && !c.Inline && c.Trusted == "" && strings.Contains(k, fnFilter) {
			keys = append(keys, k)
		}
	}
	sort.Strings(keys)
	for _, k := range keys {
		fn := p.funcs[k]
		if fn == nil {
			fmt.Printf("MISSING %s\n", k)
			continue
		}
		rep := p.verifyFunction(fn, p.cs.Funcs[k])
		if os.Getenv("GOCV_DEBUG") != "" {
			fmt.Fprintf(os.Stderr, "%s: %d obligation instances, %d paths, aborted=%q\n", k, len(rep.Obls), rep.Paths, rep.Aborted)
		}
		p.discharge(rep, budget, 16)
		fmt.Printf("== %s: paths=%d returns=%d obligations=%d trivial=%d aborted=%q\n", k, rep.Paths, rep.Returns, len(rep.Obls), rep.Trivial, rep.Aborted)
		for _, n := range rep.Notes {
			fmt.Println("   note:", n)
		}
		agg := map[string]string{}
		ms := map[string]int64{}
		if os.Getenv("GOCV_DEBUG") != "" {
			bs := map[string]int{}
			bt := map[string]int64{}
			for _, ob := range rep.Obls {
				bs[ob.result.Solver]++
				bt[ob.result.Solver] += ob.result.Ms
			}
			for _, ob := range rep.Obls {
				if !strings.Contains(ob.result.Solver, "sliced") {
					fmt.Fprintf(os.Stderr, "   slow %s %s %dms\n", ob.result.Solver, ob.Name, ob.result.Ms)
				}
			}
			for k, v := range bs {
				fmt.Fprintf(os.Stderr, "   backend %-28s %5d instances %8d ms\n", k, v, bt[k])
			}
		}
		for _, ob := range rep.Obls {
			prev, ok := agg[ob.Name]
			if !ok || prev == "unsat" {
				agg[ob.Name] = ob.status
			}
			if ob.result.Ms > ms[ob.Name] {
				ms[ob.Name] = ob.result.Ms
			}
			if (ob.status != "unsat" || os.Getenv("GOCV_DUMPALL") == "1") && dump {
				q := rep.exec.buildQuery(ob.node)
				if os.Getenv("GOCV_SLICED") == "1" {
					q = rep.exec.buildQueryOpt(ob.node, true, true)
				}
				if os.Getenv("GOCV_SLICED") == "2" {
					q = rep.exec.buildQuerySliced(ob.node, true, true, true)
				}
				fmt.Printf("---- %s [%s]\n%s\n%s\n", ob.Name, ob.status, q, ob.result.Raw)
			}
		}
		var names []string
		for n := range agg {
			names = append(names, n)
		}
		sort.Strings(names)
		for _, n := range names {
			fmt.Printf("   %-8s %6dms %s\n", agg[n], ms[n], n)
		}
	}
	return 0
}

func cmdList(cfg Config) int {
	cs, err := loadContracts(cfg.Repo, cfg.Specs)
	if err != nil {
		fmt.Fprintln(os.Stderr, err)
		return 2
	}
	var keys []string
	for k := range cs.Funcs {
		keys = append(keys, k)
	}
	sort.Strings(keys)
	for _, k := range keys {
		c := cs.Funcs[k]
		tags := map[string]bool{}
		for _, cls := range [][]*Clause{c.Requires, c.Ensures, c.Invs, c.Asserts, c.OnPanic, c.LineHooks} {
			for _, cl := range cls {
				for _, t := range cl.Tags {
					tags[t] = true
				}
			}
		}
		var ts []string
		for t := range tags {
			ts = append(ts, t)
		}
		sort.Strings(ts)
		fmt.Printf("%-9s %-70s %s %s\n", c.Kind, k, strings.Join(ts, ","), c.Trusted)
	}
	return 0
}

func init() {
	debugHook = func(p *Program) {
		if os.Getenv("GOCV_DEBUG") != "" {
			for k, f := range p.mapFacts {
				fmt.Fprintf(os.Stderr, "mapfact %s: %d entries\n", k, len(f.entries))
			}
		}
	}
}

func cmdLoops(cfg Config, filter string) int {
	p, err := loadProgram(cfg.Repo, cfg.Specs)
	if err != nil {
		fmt.Fprintln(os.Stderr, err)
		return 2
	}
	x := newExec(p)
	var keys []string
	for k := range p.funcs {
		if strings.Contains(k, filter) {
			keys = append(keys, k)
		}
	}
	sort.Strings(keys)
	for _, k := range keys {
		fn := p.funcs[k]
		if len(fn.Blocks) == 0 {
			continue
		}
		ls := x.loopsOf(fn)
		if len(ls) == 0 {
			continue
		}
		fmt.Println(k)
		type item struct {
			ord  int
			line string
		}
		var items []item
		for h, li := range ls {
			line := ""
			for b := range li.blocks {
				for _, ins := range b.Instrs {
					if ins.Pos().IsValid() {
						l := p.posString(ins.Pos()) + " " + p.sourceLine(ins.Pos())
						if line == "" || l < line {
							line = l
						}
					}
				}
			}
			_ = h
			items = append(items, item{li.ordinal, line})
		}
		sort.Slice(items, func(i, j int) bool { return items[i].ord < items[j].ord })
		for _, it := range items {
			fmt.Printf("   loop %d: %s\n", it.ord, it.line)
		}
	}
	return 0
}

// cmdFuncs lists the keys of the functions (and closures) whose key contains the filter, with the
// source line they start on - closures are numbered by go/ssa in source order.
func cmdFuncs(cfg Config, filter string) int {
	p, err := loadProgram(cfg.Repo, cfg.Specs)
	if err != nil {
		fmt.Fprintln(os.Stderr, err)
		return 2
	}
	var keys []string
	for k := range p.funcs {
		if strings.Contains(k, filter) {
			keys = append(keys, k)
		}
	}
	sort.Strings(keys)
	for _, k := range keys {
		fn := p.funcs[k]
		fmt.Printf("%-60s %s %s\n", k, p.posString(fn.Pos()), strings.TrimSpace(p.sourceLine(fn.Pos())))
	}
	return 0
}

// cmdFrames lists the functions under contract that have no `assigns` clause although another function
// under contract calls them by contract (the caller then assumes that they assign nothing).
func cmdFrames(cfg Config) int {
	p, err := loadProgram(cfg.Repo, cfg.Specs)
	if err != nil {
		fmt.Fprintln(os.Stderr, "load:", err)
		return 2
	}
	callers := map[string][]string{}
	var scan func(root string, f *ssa.Function, depth int)
	scan = func(root string, f *ssa.Function, depth int) {
		if f == nil || depth > 6 {
			return
		}
		for _, b := range f.Blocks {
			for _, in := range b.Instrs {
				c, ok := in.(ssa.CallInstruction)
				if !ok {
					continue
				}
				callee := c.Common().StaticCallee()
				if callee == nil {
					continue
				}
				k := funcKey(callee)
				cc := p.cs.Funcs[k]
				if cc == nil || cc.Inline {
					if cc == nil && len(callee.Blocks) > 0 && callee.Pkg != nil && strings.HasPrefix(callee.Pkg.Pkg.Path(), modulePrefix) {
						scan(root, callee, depth+1)
					}
					continue
				}
				callers[k] = append(callers[k], root)
			}
		}
		for _, af := range f.AnonFuncs {
			if c := p.cs.Funcs[funcKey(af)]; c == nil || c.Inline {
				scan(root, af, depth+1)
			}
		}
	}
	for k, c := range p.cs.Funcs {
		if c.Kind != "func" || c.Inline || c.Trusted != "" {
			continue
		}
		scan(k, p.funcs[k], 0)
	}
	var keys []string
	for k := range callers {
		keys = append(keys, k)
	}
	sort.Strings(keys)
	for _, k := range keys {
		c := p.cs.Funcs[k]
		if c.Kind != "func" || c.HasAssigns || c.Pure {
			continue
		}
		fmt.Printf("%-70s trusted=%v callers=%d e.g. %s\n", k, c.Trusted != "", len(callers[k]), shortKey(callers[k][0]))
	}
	return 0
}
