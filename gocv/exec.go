package main

// Symbolic executor over naive-form go/ssa. One DFS per function under contract; loops are cut at
// their headers by invariants; calls use contracts (or are inlined when the callee has none).

import (
	"fmt"
	"go/constant"
	"go/token"
	"go/types"
	"math"
	"os"
	"sort"
	"strings"

	"golang.org/x/tools/go/ssa"
)

type abortErr struct{ msg string }

type restartLoop struct{ run *loopRun }

type loopInfo struct {
	header  *ssa.BasicBlock
	blocks  map[*ssa.BasicBlock]bool
	ordinal int
	// modified set, grows monotonically across attempts
	modAllocs map[*ssa.Alloc]bool
	modHeap   map[string]string // key -> sort of the leaf array
	modPats   map[string]bool
}

type loopRun struct {
	info    *loopInfo
	frame   *Frame
	pre     *State // state at loop entry (before havoc), for atloop()
	preCell int    // cells with id < preCell existed before the loop
}

type Frame struct {
	fn      *ssa.Function
	env     map[ssa.Value]Value
	cellOf  map[*ssa.Alloc]int
	parent  *Frame
	depth   int
	loops   map[*ssa.BasicBlock]*loopInfo
	ret     func(st *State, results []Value)
	onPanic func(st *State)
	id      int
	ctx     *FuncCtx
	callPos token.Pos
	callOrd map[string]int // occurrences of callee keys seen on this path (for `at` assertions)
	callRes map[string][]Value
}

// FuncCtx is the function under verification.
type FuncCtx struct {
	fn       *ssa.Function
	key      string
	contract *Contract
	entry    *State // snapshot at entry for old()
	params   map[string]Value
	top      *Frame
	alloc0   Term
	allowed  map[string]bool // assigns (items without object restriction)
	allowedAt map[string][]string // assigns item -> objects (contract expressions, evaluated at entry) it is restricted to
	except   []frameExcept
	ghost    map[string]int  // ghost variable -> cell id
}

func (x *Exec) abort(f string, a ...interface{}) {
	panic(abortErr{fmt.Sprintf(f, a...)})
}

// ------------------------------------------------------------------------------------------------
// Obligations

func (x *Exec) oblige(st *State, kind, label string, cond Term, tags []string, pos token.Pos) {
	if cond.S == "true" {
		// The condition folded to true while it was generated. Contract clauses (not the implicit
		// safety conditions) are still recorded, so that the baseline notices when a clause stops
		// producing obligations; no solver is called for them.
		x.trivial++
		if kind == "assert" || kind == "ensures" || kind == "onpanic" || kind == "call-pre" || kind == "refines" {
			fc := x.curFunc
			name := fmt.Sprintf("%s#%s:%s", fc.key, kind, label)
			ob := &Obligation{Name: name, Kind: kind, Func: fc.key, Tags: tags, Pos: x.prog.posString(pos), Cond: cond}
			ob.status = "unsat"
			ob.result = SolveResult{Status: "unsat", Solver: "trivial"}
			ob.pre = true
			ob.node = &LogNode{Kind: KOblige, Name: name, T: cond, Obl: ob, Parent: st.log}
			x.obls = append(x.obls, ob)
		}
		return
	}
	fc := x.curFunc
	name := fmt.Sprintf("%s#%s:%s", fc.key, kind, label)
	ob := &Obligation{Name: name, Kind: kind, Func: fc.key, Tags: tags, Pos: x.prog.posString(pos), Cond: cond}
	n := &LogNode{Kind: KOblige, Name: name, T: cond, Obl: ob}
	st.push(n)
	ob.node = n
	x.obls = append(x.obls, ob)
}

func (x *Exec) safety(st *State, kind string, cond Term, pos token.Pos) {
	label := x.prog.sourceLine(pos)
	if label == "" {
		label = "?"
	}
	if fc := x.curFunc; fc != nil && fc.contract != nil && x.curFrame != nil && x.curFrame == fc.top {
		for _, mf := range fc.contract.MayFail {
			if strings.Contains(label, mf) {
				// declared `mayfail`: the failing case is a panic path of its own
				ps := st.clone()
				fr := x.curFrame
				x.branch(func() {
					ps.assume(Not(cond))
					x.doPanic(fr, ps, pos, false)
				})
				st.assume(cond)
				return
			}
		}
	}
	x.oblige(st, kind, label, cond, []string{"C13"}, pos)
}

// ------------------------------------------------------------------------------------------------
// Symbolic values of a type, with the type's range facts assumed.

func intRange(t types.Type) (lo, hi string, ok bool) {
	b, isb := t.Underlying().(*types.Basic)
	if !isb {
		return
	}
	switch b.Kind() {
	case types.Int, types.Int64:
		return "-9223372036854775808", "9223372036854775807", true
	case types.Int32:
		return "-2147483648", "2147483647", true
	case types.Int16:
		return "-32768", "32767", true
	case types.Int8:
		return "-128", "127", true
	case types.Uint, types.Uint64, types.Uintptr:
		return "0", "18446744073709551615", true
	case types.Uint32:
		return "0", "4294967295", true
	case types.Uint16:
		return "0", "65535", true
	case types.Uint8:
		return "0", "255", true
	}
	return
}

func (x *Exec) assumeLeafFacts(st *State, tm Term, l Leaf, full bool) {
	switch l.Sub {
	case "off", "len", "cap", "ptr":
		st.assume(Ge(tm, TZero))
		if full && l.Sub != "ptr" {
			st.assume(Le(tm, BigLit("9223372036854775807")))
		}
		return
	case "tag", "data":
		st.assume(Ge(tm, TZero))
		return
	}
	if l.Sort != SInt {
		return
	}
	if _, ok := isOpaque(l.Typ); ok {
		return
	}
	switch u := l.Typ.Underlying().(type) {
	case *types.Basic:
		if u.Info()&types.IsString != 0 {
			st.assume(Ge(tm, TZero))
			return
		}
		lo, hi, ok := intRange(l.Typ)
		if !ok {
			return
		}
		if lo == "0" || full {
			st.assume(Ge(tm, BigLit(lo)))
		}
		if full {
			st.assume(Le(tm, BigLit(hi)))
		}
	case *types.Pointer, *types.Map, *types.Chan, *types.Signature:
		st.assume(Ge(tm, TZero))
		st.assume(Lt(tm, st.alloc))
	}
}

func (x *Exec) sliceFacts(st *State, s *SliceV) {
	st.assume(And(Ge(s.Off, TZero), Ge(s.Len, TZero), Le(s.Len, s.Cap), Le(s.Cap, IntLit(9223372036854775807)), Ge(s.Ptr, TZero), Lt(s.Ptr, st.alloc)))
	// a slice with capacity has a backing array (nil slices have ptr 0)
	st.assume(Imp(Gt(s.Cap, TZero), Gt(s.Ptr, TZero)))
}

func (x *Exec) symbolic(st *State, t types.Type, hint string, full bool) Value {
	v := buildValue(t, func(l Leaf) Term {
		c := x.freshConst(st, hint+"."+l.Path, l.Sort)
		x.assumeLeafFacts(st, c, l, full)
		return c
	})
	x.valueFacts(st, v, t)
	return v
}

// valueFacts assumes structural facts (slice len<=cap, ...) about a freshly read or created value.
func (x *Exec) valueFacts(st *State, v Value, t types.Type) {
	switch w := v.(type) {
	case *SliceV:
		x.sliceFacts(st, w)
	case *StructV:
		u := t.Underlying().(*types.Struct)
		for i, f := range w.F {
			x.valueFacts(st, f, u.Field(i).Type())
		}
	case *ArrV:
		u := t.Underlying().(*types.Array)
		for _, e := range w.E {
			x.valueFacts(st, e, u.Elem())
		}
	}
}

// ------------------------------------------------------------------------------------------------
// Cells, locations, loads and stores.

func (x *Exec) newCell(st *State, t types.Type, name string, a *ssa.Alloc) *Loc {
	x.cellSeq++
	id := x.cellSeq
	st.cells[id] = &Cell{V: zeroValue(t), Typ: t, Name: name, Alloc: a}
	return &Loc{Kind: LCell, CellID: id, Root: t, Typ: t}
}

func (x *Exec) newRef(st *State) Term {
	r := x.freshConst(st, "ref", SInt)
	st.assume(Eq(r, st.alloc))
	na := x.freshConst(st, "alloc", SInt)
	st.assume(Eq(na, Add(r, TOne)))
	st.alloc = na
	return r
}

// refOf returns the heap reference of a pointer to a whole object, materialising cells.
func (x *Exec) refOf(st *State, l *Loc) Term {
	switch l.Kind {
	case LObj:
		if len(l.Path) == 0 {
			return l.Ref
		}
	case LCell:
		if len(l.Path) == 0 {
			c := st.cells[l.CellID]
			if c == nil {
				x.abort("dangling cell")
			}
			if !c.Mat {
				if st.quiet > 0 {
					x.abort("contract expression takes the address of a local that has not escaped")
				}
				r := x.newRef(st)
				v := c.V
				c.Mat = true
				c.Ref = r
				x.storeObj(st, "H", c.Typ, r, Term{}, "", c.Typ, v)
			}
			return c.Ref
		}
	}
	x.abort("interior pointer escapes (%v path %v)", l.Kind, l.Path)
	return Term{}
}

func (x *Exec) recordWrite(st *State, key string) {
	for _, r := range st.active {
		if _, ok := r.info.modHeap[key]; !ok {
			srt := ""
			if t, ok := st.heap[key]; ok {
				srt = t.Sort
			}
			r.info.modHeap[key] = srt
			panic(restartLoop{r})
		}
	}
	if st.written != nil {
		st.written[key] = true
	}
}

func (x *Exec) recordCellWrite(st *State, c *Cell, id int) {
	if c.Alloc == nil {
		return
	}
	for _, r := range st.active {
		if id < r.preCell && !r.info.modAllocs[c.Alloc] {
			r.info.modAllocs[c.Alloc] = true
			panic(restartLoop{r})
		}
	}
}

// storeObj writes value v (of type vt) at path prefix below a heap root.
// kind "H": object ref; kind "A": array ref + idx.
func (x *Exec) storeObj(st *State, kind string, root types.Type, ref, idx Term, prefix string, vt types.Type, v Value) {
	terms := x.flattenValue(st, v, vt)
	ls := leavesOf(vt)
	for i, l := range ls {
		p := join(prefix, l.Path)
		key, arr := x.heapLeaf(st, kind, root, p, l.Sort)
		var na Term
		if kind == "A" {
			row := Select(arr, ref)
			na = Store(arr, ref, Store(row, idx, terms[i]))
		} else {
			na = Store(arr, ref, terms[i])
		}
		x.checkFrame(st, key, ref)
		x.recordWrite(st, key)
		x.setHeap(st, key, na)
	}
}

func (x *Exec) loadObj(st *State, kind string, root types.Type, ref, idx Term, prefix string, vt types.Type) Value {
	v := buildValue(vt, func(l Leaf) Term {
		p := join(prefix, l.Path)
		hk, arr := x.heapLeaf(st, kind, root, p, l.Sort)
		if l.Sort == SInt && (l.Sub == "off" || l.Sub == "len" || l.Sub == "cap" || l.Sub == "ptr" || l.Sub == "tag" || l.Sub == "data") {
			// slice headers and interface words are never negative
			if kind == "A" {
				x.unsignedFam[sanitize(hk)] = 2
			} else {
				x.unsignedFam[sanitize(hk)] = 1
			}
		} else if l.Sort == SInt {
			if lo, _, ok := intRange(l.Typ); ok && lo == "0" {
				if _, opq := isOpaque(l.Typ); !opq {
					if kind == "A" {
						x.unsignedFam[sanitize(hk)] = 2
					} else {
						x.unsignedFam[sanitize(hk)] = 1
					}
				}
			}
		}
		var tm Term
		if kind == "A" {
			tm = Select(Select(arr, ref), idx)
		} else {
			tm = Select(arr, ref)
		}
		x.assumeLeafFacts(st, tm, l, false)
		return tm
	})
	x.valueFacts(st, v, vt)
	x.tagOrigin(v, vt, typeKey(root)+"."+prefix)
	return v
}

// tagOrigin records where function values were loaded from (for field contracts).
func (x *Exec) tagOrigin(v Value, t types.Type, origin string) {
	switch w := v.(type) {
	case *FuncV:
		if w.Fn == nil {
			w.Origin = strings.TrimSuffix(origin, ".")
		}
	case *StructV:
		u := t.Underlying().(*types.Struct)
		for i, f := range w.F {
			x.tagOrigin(f, u.Field(i).Type(), join(strings.TrimSuffix(origin, "."), fieldName(u, i)))
		}
	}
}

func getPath(v Value, root types.Type, path []int) Value {
	for _, i := range path {
		switch w := v.(type) {
		case *StructV:
			v = w.F[i]
		case *ArrV:
			v = w.E[i]
		default:
			panic(fmt.Sprintf("getPath: %T", v))
		}
	}
	return v
}

func setPath(v Value, path []int, nv Value) Value {
	if len(path) == 0 {
		return nv
	}
	switch w := v.(type) {
	case *StructV:
		c := &StructV{F: append([]Value{}, w.F...), Typ: w.Typ}
		c.F[path[0]] = setPath(w.F[path[0]], path[1:], nv)
		return c
	case *ArrV:
		c := &ArrV{E: append([]Value{}, w.E...), Typ: w.Typ}
		c.E[path[0]] = setPath(w.E[path[0]], path[1:], nv)
		return c
	}
	panic(fmt.Sprintf("setPath: %T", v))
}

func (x *Exec) load(st *State, l *Loc) Value {
	switch l.Kind {
	case LCell:
		c := st.cells[l.CellID]
		if c == nil {
			x.abort("load from dangling cell")
		}
		if c.Mat {
			return x.loadObj(st, "H", c.Typ, c.Ref, Term{}, pathString(c.Typ, l.Path), l.Typ)
		}
		return getPath(c.V, c.Typ, l.Path)
	case LObj:
		return x.loadObj(st, "H", l.Root, l.Ref, Term{}, pathString(l.Root, l.Path), l.Typ)
	case LElem:
		return x.loadObj(st, "A", l.Root, l.Ref, l.Idx, pathString(l.Root, l.Path), l.Typ)
	case LGlobal:
		if x.initMode && strings.HasSuffix(l.Global, ".init$guard") {
			return &Prim{T: TFalse}
		}
		prefix := pathString(l.Root, l.Path)
		v := buildValue(l.Typ, func(lf Leaf) Term {
			key := "V|" + l.Global + "|" + join(prefix, lf.Path)
			tm, ok := st.heap[key]
			if !ok {
				tm = x.global(sanitize(key)+"@0", lf.Sort)
				st.heap[key] = tm
			}
			x.assumeLeafFacts(st, tm, lf, false)
			return tm
		})
		x.valueFacts(st, v, l.Typ)
		return v
	}
	panic("load: bad loc")
}

func (x *Exec) store(st *State, l *Loc, v Value) {
	switch l.Kind {
	case LCell:
		c := st.cells[l.CellID]
		if c == nil {
			x.abort("store to dangling cell")
		}
		if c.Mat {
			x.storeObj(st, "H", c.Typ, c.Ref, Term{}, pathString(c.Typ, l.Path), l.Typ, v)
			return
		}
		x.recordCellWrite(st, c, l.CellID)
		nc := *c
		nc.V = setPath(c.V, l.Path, v)
		st.cells[l.CellID] = &nc
	case LObj:
		x.storeObj(st, "H", l.Root, l.Ref, Term{}, pathString(l.Root, l.Path), l.Typ, v)
	case LElem:
		x.storeObj(st, "A", l.Root, l.Ref, l.Idx, pathString(l.Root, l.Path), l.Typ, v)
	case LGlobal:
		prefix := pathString(l.Root, l.Path)
		terms := x.flattenValue(st, v, l.Typ)
		for i, lf := range leavesOf(l.Typ) {
			key := "V|" + l.Global + "|" + join(prefix, lf.Path)
			x.checkFrame(st, key, Term{})
			x.recordWrite(st, key)
			st.heap[key] = x.name(st, key, terms[i])
		}
	}
}

type frameExcept struct{ item, expr string }

// entryRef: the reference an `@obj` / `except obj` expression of the assigns clause denoted at entry.
func (x *Exec) entryRef(fc *FuncCtx, st *State, expr string) Term {
	e, err := x.prog.cs.parseExpr("old(" + expr + ")")
	if err != nil {
		x.abort("assigns @%s: %v", expr, err)
	}
	ev := x.newEval(fc.top, st, nil)
	st.quiet++
	x.inFrameCheck = true
	v := ev.eval(e)
	x.inFrameCheck = false
	st.quiet--
	switch w := v.(type) {
	case *PtrV:
		if w.Loc == nil {
			return TZero
		}
		return x.refOf(st, w.Loc)
	case *IfaceV:
		return w.Data
	case *SliceV:
		return w.Ptr
	case *MapV:
		return w.Ref
	case *Prim:
		return w.T
	}
	x.abort("assigns @%s: not a reference", expr)
	return Term{}
}

// checkFrame emits a frame obligation for a heap write of the function under verification.
func (x *Exec) checkFrame(st *State, key string, ref Term) {
	fc := x.curFunc
	if fc == nil || fc.contract == nil || !fc.contract.HasAssigns || x.inFrameCheck {
		return
	}
	var cond Term
	unrestricted := false
	for a := range fc.allowed {
		if itemMatches(a, key) {
			unrestricted = true
		}
	}
	if unrestricted {
		// in the frame; `except` objects of a matching item must not be the one written
		cond = TTrue
		for _, ex := range fc.except {
			if itemMatches(ex.item, key) {
				if ref.S == "" {
					cond = TFalse
				} else {
					cond = And(cond, Not(Eq(ref, x.entryRef(fc, st, ex.expr))))
				}
			}
		}
		if cond.S == "true" {
			return
		}
	} else {
		cond = TFalse
		if ref.S != "" {
			// reference 0 is nil: there is no memory behind it (a nil slice has no elements, a nil pointer faults)
			cond = Or(Ge(ref, fc.alloc0), Eq(ref, TZero))
			// written object is one the clause names (`T.f@obj`, `*p`), as it was at entry
			for a, ats := range fc.allowedAt {
				if itemMatches(a, key) {
					for _, at := range ats {
						cond = Or(cond, Eq(ref, x.entryRef(fc, st, at)))
					}
				}
			}
		}
	}
	x.oblige(st, "frame", key, cond, fc.contract.frameTags(), token.NoPos)
}

func (c *Contract) frameTags() []string { return append([]string{"C12", "C20"}, c.FrameTags...) }

// itemMatches: does the assigns item a cover the heap leaf key?
func itemMatches(a, key string) bool {
	// key: H|T|path, A|T|path, V|global|path, G|ghost, M|...
	parts := strings.SplitN(key, "|", 3)
	if a == "*" {
		return true
	}
	switch {
	case strings.HasPrefix(a, "deref "):
		return parts[0] == "H" && parts[1] == strings.TrimPrefix(a, "deref ")
	case strings.HasPrefix(a, "ghost "):
		return parts[0] == "G" && parts[1] == strings.TrimPrefix(a, "ghost ")
	case strings.HasPrefix(a, "global "):
		return parts[0] == "V" && parts[1] == strings.TrimPrefix(a, "global ")
	case strings.HasPrefix(a, "elems(") && strings.HasSuffix(a, ")"):
		return parts[0] == "A" && parts[1] == a[6:len(a)-1]
	default:
		// T.f or T.*
		if len(parts) == 3 && (parts[0] == "H" || parts[0] == "A" || parts[0] == "M") {
			i := strings.LastIndex(a, ".")
			if i > 0 {
				t, f := a[:i], a[i+1:]
				if t == parts[1] && (f == "*" || parts[2] == f || strings.HasPrefix(parts[2], f+".")) {
					return true
				}
			}
		}
	}
	return false
}

// ------------------------------------------------------------------------------------------------
// Running a function body.

func (x *Exec) newFrame(fn *ssa.Function, parent *Frame) *Frame {
	x.frameSeq++
	fr := &Frame{fn: fn, env: map[ssa.Value]Value{}, cellOf: map[*ssa.Alloc]int{}, parent: parent, id: x.frameSeq, callOrd: map[string]int{}, callRes: map[string][]Value{}}
	if parent != nil {
		fr.depth = parent.depth + 1
		fr.ctx = parent.ctx
	}
	fr.loops = x.loopsOf(fn)
	return fr
}

func (x *Exec) loopsOf(fn *ssa.Function) map[*ssa.BasicBlock]*loopInfo {
	if li, ok := x.loopCache[fn]; ok {
		return li
	}
	res := map[*ssa.BasicBlock]*loopInfo{}
	// back edges: succ dominates pred
	for _, b := range fn.Blocks {
		for _, s := range b.Succs {
			if s.Dominates(b) {
				li := res[s]
				if li == nil {
					li = &loopInfo{header: s, blocks: map[*ssa.BasicBlock]bool{s: true}, modAllocs: map[*ssa.Alloc]bool{}, modHeap: map[string]string{}, modPats: map[string]bool{}}
					res[s] = li
				}
				// natural loop: nodes that reach b without passing through s
				var stack []*ssa.BasicBlock
				if !li.blocks[b] {
					li.blocks[b] = true
					stack = append(stack, b)
				}
				for len(stack) > 0 {
					n := stack[len(stack)-1]
					stack = stack[:len(stack)-1]
					for _, p := range n.Preds {
						if !li.blocks[p] {
							li.blocks[p] = true
							stack = append(stack, p)
						}
					}
				}
			}
		}
	}
	var hs []*ssa.BasicBlock
	for h := range res {
		hs = append(hs, h)
	}
	sort.Slice(hs, func(i, j int) bool { return hs[i].Index < hs[j].Index })
	for i, h := range hs {
		res[h].ordinal = i
	}
	x.loopCache[fn] = res
	return res
}

func (x *Exec) get(fr *Frame, st *State, v ssa.Value) Value {
	switch w := v.(type) {
	case *ssa.Const:
		return x.constValue(w)
	case *ssa.Function:
		return &FuncV{Fn: w, ID: x.funcID(w)}
	case *ssa.Global:
		t := w.Type().(*types.Pointer).Elem()
		return &PtrV{Loc: &Loc{Kind: LGlobal, Global: globalKey(w), Root: t, Typ: t}, Elem: t}
	case *ssa.Builtin:
		return w
	}
	if val, ok := fr.env[v]; ok {
		return val
	}
	x.abort("unbound SSA value %s in %s", v.Name(), fr.fn.Name())
	return nil
}

func globalKey(g *ssa.Global) string {
	return qual(g.Pkg.Pkg) + "." + g.Name()
}

func (x *Exec) funcID(fn *ssa.Function) Term {
	k := "fn:" + funcKey(fn)
	if id, ok := x.funcIDs[k]; ok {
		return IntLit(id)
	}
	id := int64(len(x.funcIDs) + 1000)
	x.funcIDs[k] = id
	return IntLit(id)
}

func (x *Exec) constValue(c *ssa.Const) Value {
	v := x.constValue0(c)
	if p, ok := v.(*Prim); ok && p.Typ == nil {
		p.Typ = c.Type()
	}
	return v
}

func (x *Exec) constValue0(c *ssa.Const) Value {
	t := c.Type()
	if c.Value == nil {
		// zero value / nil
		if b, ok := t.Underlying().(*types.Basic); ok && b.Kind() == types.UntypedNil {
			return &PtrV{Loc: nil}
		}
		return zeroValue(t)
	}
	switch c.Value.Kind() {
	case constant.Bool:
		return &Prim{T: BoolLit(constant.BoolVal(c.Value))}
	case constant.String:
		s := constant.StringVal(c.Value)
		x.prog.registerString(s)
		return &Prim{T: x.strCode(s)}
	case constant.Int:
		if b, ok := t.Underlying().(*types.Basic); ok && b.Info()&types.IsFloat != 0 {
			f, _ := constant.Float64Val(c.Value)
			return &Prim{T: F64Bits(math.Float64bits(f))}
		}
		return &Prim{T: BigLit(c.Value.ExactString())}
	case constant.Float:
		if b, ok := t.Underlying().(*types.Basic); ok && b.Info()&types.IsInteger != 0 {
			i, _ := constant.Int64Val(constant.ToInt(c.Value))
			return &Prim{T: IntLit(i)}
		}
		f, _ := constant.Float64Val(c.Value)
		return &Prim{T: F64Bits(math.Float64bits(f))}
	}
	x.abort("unsupported constant %s", c)
	return nil
}

// run executes block b from instruction index i.
func (x *Exec) run(fr *Frame, st *State, b *ssa.BasicBlock, pred *ssa.BasicBlock, i int) {
	for ; i < len(b.Instrs); i++ {
		ins := b.Instrs[i]
		x.curFrame = fr
		if fr.ctx != nil && fr.ctx.contract != nil && len(fr.ctx.contract.LineHooks) > 0 && (fr == fr.ctx.top || isClosureOf(fr.fn, fr.ctx.top.fn)) {
			// line hooks also fire inside the inlined closures of the function (once.Do bodies)
			x.lineHooks(fr, st, ins)
		}
		switch v := ins.(type) {
		case *ssa.DebugRef:
			continue
		case *ssa.If:
			c := x.get(fr, st, v.Cond).(*Prim).T
			if c.S == "true" {
				x.jump(fr, st, b, b.Succs[0])
				return
			}
			if c.S == "false" {
				x.jump(fr, st, b, b.Succs[1])
				return
			}
			st2 := st.clone()
			st.assume(c)
			x.jump(fr, st, b, b.Succs[0])
			st2.assume(Not(c))
			x.jump(fr, st2, b, b.Succs[1])
			return
		case *ssa.Jump:
			x.jump(fr, st, b, b.Succs[0])
			return
		case *ssa.Return:
			var rs []Value
			for _, r := range v.Results {
				rs = append(rs, x.get(fr, st, r))
			}
			fr.ret(st, rs)
			return
		case *ssa.Panic:
			x.doPanic(fr, st, v.Pos(), true)
			return
		case *ssa.Call:
			idx := i
			x.call(fr, st, v, &v.Call, v.Pos(), func(st2 *State, res Value) {
				if res != nil {
					fr.env[v] = res
				}
				x.run(fr, st2, b, pred, idx+1)
			})
			return
		case *ssa.Defer:
			call := v.Call
			// evaluate arguments now
			var argv []Value
			for _, a := range call.Args {
				argv = append(argv, x.get(fr, st, a))
			}
			var fv Value
			if !call.IsInvoke() {
				fv = x.get(fr, st, call.Value)
			} else {
				fv = x.get(fr, st, call.Value)
			}
			frameID := fr.id
			cc := call
			pos := v.Pos()
			st.defers = append(st.defers, deferred{frame: frameID, run: func(st2 *State, k func(*State)) {
				x.callWith(fr, st2, &cc, fv, argv, pos, func(st3 *State, _ Value) { k(st3) })
			}})
			continue
		case *ssa.RunDefers:
			idx := i
			x.runDefers(fr, st, func(st2 *State) { x.run(fr, st2, b, pred, idx+1) })
			return
		case *ssa.Go:
			x.goStmt(fr, st, v)
			continue
		case *ssa.Send:
			x.chanSend(st, x.get(fr, st, v.Chan), TTrue, v.Pos())
			continue
		case *ssa.Store:
			addr := x.get(fr, st, v.Addr)
			val := x.get(fr, st, v.Val)
			p, ok := addr.(*PtrV)
			if !ok {
				x.abort("store through %T", addr)
			}
			x.nilCheck(st, p, v.Pos())
			x.store(st, p.Loc, x.coerce(st, val, p.Loc.Typ))
			continue
		case *ssa.MapUpdate:
			x.mapUpdate(fr, st, v)
			continue
		case ssa.Value:
			x.evalValue(fr, st, v, pred)
			continue
		default:
			x.abort("unsupported instruction %T", ins)
		}
	}
}

func (x *Exec) nilCheck(st *State, p *PtrV, pos token.Pos) {
	if p.Loc == nil {
		x.safety(st, "nil", TFalse, pos)
		x.endPath(st, "panic")
		panic(pathEnd{})
	}
	if p.Loc.Kind == LObj {
		if _, ok := isIntLit(p.Loc.Ref); !ok {
			if !st.knownNonNil(p.Loc.Ref) {
				x.safety(st, "nil", Not(Eq(p.Loc.Ref, TZero)), pos)
				st.markNonNil(p.Loc.Ref)
				x.assumeTypeInv(st, p)
			}
		} else if p.Loc.Ref.S == "0" {
			x.safety(st, "nil", TFalse, pos)
		}
	}
}

type pathEnd struct{}

func (x *Exec) endPath(st *State, kind string) {
	x.paths++
	if x.paths > x.pathCap {
		x.abort("path cap %d exceeded", x.pathCap)
	}
}

func (x *Exec) jump(fr *Frame, st *State, from, to *ssa.BasicBlock) {
	// leaving loops of this frame?
	for len(st.active) > 0 {
		top := st.active[len(st.active)-1]
		if top.frame == fr && !top.info.blocks[to] {
			st.active = st.active[:len(st.active)-1]
			continue
		}
		break
	}
	if li, ok := fr.loops[to]; ok {
		// back edge of an active loop?
		if n := len(st.active); n > 0 && st.active[n-1].frame == fr && st.active[n-1].info == li {
			x.checkInvariants(fr, st, li, "invariant-pres", st.active[n-1])
			x.endPath(st, "cut")
			return
		}
		x.enterLoop(fr, st, li, from)
		return
	}
	x.run(fr, st, to, from, 0)
}

// doPanic: the path panics at pos. Deferred calls run; a deferred recover() turns the panic into
// a normal return through the function's recover block. A panic that escapes the function under
// verification is an obligation (unreachable) unless its contract says `panics may`.
func (x *Exec) doPanic(fr *Frame, st *State, pos token.Pos, explicit bool) {
	st.panicking = true
	if st.panicVal == nil {
		tag := x.freshConst(st, "panicval.tag", SInt)
		st.assume(Gt(tag, TZero))
		st.panicVal = &IfaceV{Tag: tag, Data: x.freshConst(st, "panicval.data", SInt)}
	}
	st.panicPos = pos
	x.unwind(fr, st)
}

func (x *Exec) unwind(fr *Frame, st *State) {
	x.runDefers(fr, st, func(st2 *State) {
		if !st2.panicking {
			// recovered in this frame: the function returns normally with its named results
			if fr.fn.Recover != nil {
				x.run(fr, st2, fr.fn.Recover, nil, 0)
				return
			}
			var zs []Value
			rs := fr.fn.Signature.Results()
			for i := 0; i < rs.Len(); i++ {
				zs = append(zs, zeroValue(rs.At(i).Type()))
			}
			fr.ret(st2, zs)
			return
		}
		if fr.parent != nil {
			x.unwind(fr.parent, st2)
			return
		}
		fc := x.curFunc
		if fc.contract == nil || fc.contract.Panics != "may" {
			x.oblige(st2, "panic", x.prog.sourceLine(st2.panicPos), TFalse, []string{"C13"}, st2.panicPos)
		} else if len(fc.contract.OnPanic) > 0 {
			ev := x.newEval(fr, st2, nil)
			for _, p := range fr.fn.Params {
				ev.bind[p.Name()] = fr.env[p]
			}
			ev.bind["PANICKING"] = &Prim{T: TTrue}
			ev.bind["RECOVERED"] = &Prim{T: TFalse}
			for _, cl := range fc.contract.OnPanic {
				x.oblige(st2, "onpanic", cl.Label, ev.boolExpr(cl.Expr), cl.Tags, token.NoPos)
			}
		}
		x.endPath(st2, "panic")
	})
}

func (x *Exec) runDefers(fr *Frame, st *State, k func(*State)) {
	// pop the deferred calls of this frame, LIFO
	n := len(st.defers)
	if n == 0 || st.defers[n-1].frame != fr.id {
		k(st)
		return
	}
	d := st.defers[n-1]
	st.defers = st.defers[:n-1]
	d.run(st, func(st2 *State) { x.runDefers(fr, st2, k) })
}

// ------------------------------------------------------------------------------------------------
// Loops

func (x *Exec) enterLoop(fr *Frame, st *State, li *loopInfo, from *ssa.BasicBlock) {
	for attempt := 0; ; attempt++ {
		if attempt > 200 {
			x.abort("loop modified-set did not converge")
		}
		nObl := len(x.obls)
		paths := x.paths
		triv := x.trivial
		done := func() (ok bool) {
			defer func() {
				if r := recover(); r != nil {
					if rl, isrl := r.(restartLoop); isrl && rl.run.info == li && rl.run.frame == fr {
						ok = false
						return
					}
					panic(r)
				}
			}()
			// leaves written by the loop must have a name in the pre-loop state
			for k, srt := range li.modHeap {
				if _, ok := st.heap[k]; !ok && srt != "" {
					st.heap[k] = x.initialLeaf(st, k, srt)
				}
			}
			pre := st.clone()
			run := &loopRun{info: li, frame: fr, pre: pre, preCell: x.cellSeq + 1}
			// 1. invariants hold on entry
			init := st.clone()
			x.checkInvariants(fr, init, li, "invariant-init", run)
			// 2. arbitrary iteration
			body := init.clone()
			x.havocLoop(fr, body, li, run)
			body.active = append(append([]*loopRun{}, body.active...), run)
			x.assumeInvariants(fr, body, li, run)
			x.run(fr, body, li.header, from, 0)
			return true
		}()
		if done {
			return
		}
		x.obls = x.obls[:nObl]
		x.paths = paths
		x.trivial = triv
	}
}

func (x *Exec) havocLoop(fr *Frame, st *State, li *loopInfo, run *loopRun) {
	// cells
	var ids []int
	for id := range st.cells {
		ids = append(ids, id)
	}
	sort.Ints(ids)
	for _, id := range ids {
		c := st.cells[id]
		if c.Alloc != nil && li.modAllocs[c.Alloc] && !c.Mat && fr.ctx != nil && fr.ctx.ghost[c.Name] == id && c.Name != "" {
			// ghost variable: havoc at the sort of its current value
			if p, ok := c.V.(*Prim); ok {
				nc := *c
				nc.V = &Prim{T: x.freshConst(st, "ghost."+c.Name, p.T.Sort)}
				st.cells[id] = &nc
				continue
			}
		}
		if c.Alloc != nil && li.modAllocs[c.Alloc] && !c.Mat {
			if os.Getenv("GOCV_DEBUG") == "2" {
				fmt.Fprintf(os.Stderr, "loop %d havocs cell %s\n", li.ordinal, c.Name)
			}
			nc := *c
			nc.V = x.symbolic(st, c.Typ, c.Name, false)
			st.cells[id] = &nc
		}
	}
	var keys []string
	for k := range li.modHeap {
		keys = append(keys, k)
	}
	sort.Strings(keys)
	for _, k := range keys {
		old, ok := st.heap[k]
		if !ok {
			continue
		}
		st.heap[k] = x.freshConst(st, sanitize(k), old.Sort)
	}
	for p := range li.modPats {
		found := false
		for _, q := range st.havocPats {
			if q == p {
				found = true
			}
		}
		if !found {
			st.havocPats = append(st.havocPats, p)
		}
		for k, old := range st.heap {
			if keyMatches(k, p) {
				if _, done := li.modHeap[k]; !done {
					st.heap[k] = x.freshConst(st, sanitize(k), old.Sort)
				}
			}
		}
	}
	st.epoch++
	na := x.freshConst(st, "alloc", SInt)
	st.assume(Ge(na, st.alloc))
	st.alloc = na
	st.nonNil = nil
}

func (x *Exec) loopClauses(fr *Frame, li *loopInfo) []*Clause {
	if fr.ctx == nil {
		return nil
	}
	c := x.contractFor(fr.fn)
	if c == nil {
		return nil
	}
	var out []*Clause
	for _, cl := range c.Invs {
		if cl.Loop == li.ordinal {
			out = append(out, cl)
		}
	}
	return out
}

// rangeBound recognises the header of a range-over-slice/int loop in naive SSA
// (t = *rangeindex; t' = t+1; *rangeindex = t'; if t' < n) and returns the automatic invariant
// -1 <= rangeindex && rangeindex+1 <= max(n, 0).
func rangeIndexAlloc(h *ssa.BasicBlock) *ssa.Alloc {
	if len(h.Instrs) == 0 {
		return nil
	}
	iff, ok := h.Instrs[len(h.Instrs)-1].(*ssa.If)
	if !ok {
		return nil
	}
	cmp, ok := iff.Cond.(*ssa.BinOp)
	if !ok || cmp.Op != token.LSS {
		return nil
	}
	add, ok := cmp.X.(*ssa.BinOp)
	if !ok || add.Op != token.ADD {
		return nil
	}
	ld, ok := add.X.(*ssa.UnOp)
	if !ok || ld.Op != token.MUL {
		return nil
	}
	al, ok := ld.X.(*ssa.Alloc)
	if !ok || al.Comment != "rangeindex" {
		return nil
	}
	return al
}

func (x *Exec) rangeBound(fr *Frame, st *State, li *loopInfo) (Term, bool) {
	h := li.header
	al := rangeIndexAlloc(h)
	if al == nil {
		return Term{}, false
	}
	cmp := h.Instrs[len(h.Instrs)-1].(*ssa.If).Cond.(*ssa.BinOp)
	id, ok := fr.cellOf[al]
	if !ok {
		return Term{}, false
	}
	c := st.cells[id]
	if c == nil || c.Mat {
		return Term{}, false
	}
	nv, ok := fr.env[cmp.Y]
	if !ok {
		return Term{}, false
	}
	n := nv.(*Prim).T
	ri := c.V.(*Prim).T
	return And(Le(IntLit(-1), ri), Le(Add(ri, TOne), app(SInt, "imax", n, TZero))), true
}

func (x *Exec) checkInvariants(fr *Frame, st *State, li *loopInfo, kind string, run *loopRun) {
	if t, ok := x.rangeBound(fr, st, li); ok {
		x.oblige(st, kind, fmt.Sprintf("loop%d:auto-range-bound", li.ordinal), t, nil, token.NoPos)
	}
	for _, cl := range x.loopClauses(fr, li) {
		ev := x.newEval(fr, st, run)
		t := ev.boolExpr(cl.Expr)
		x.oblige(st, kind, fmt.Sprintf("loop%d:%s", li.ordinal, cl.Label), t, cl.Tags, token.NoPos)
	}
}

func (x *Exec) assumeInvariants(fr *Frame, st *State, li *loopInfo, run *loopRun) {
	if t, ok := x.rangeBound(fr, st, li); ok {
		st.assume(t)
	}
	for _, cl := range x.loopClauses(fr, li) {
		ev := x.newEval(fr, st, run)
		st.assume(ev.boolExpr(cl.Expr))
	}
}

// lineHooks runs `at line "text" assert|set` clauses when control reaches a new source line that
// contains the text (before the first instruction of that line executes).
func (x *Exec) lineHooks(fr *Frame, st *State, ins ssa.Instruction) {
	if _, isDbg := ins.(*ssa.DebugRef); isDbg {
		return
	}
	pos := ins.Pos()
	if !pos.IsValid() {
		return
	}
	line := x.prog.fset.Position(pos).Line
	if st.lastLine == line {
		return
	}
	st.lastLine = line
	text := x.prog.sourceLine(pos)
	for _, cl := range fr.ctx.contract.LineHooks {
		if !strings.Contains(text, cl.AtLine) {
			continue
		}
		var run *loopRun
		if n := len(st.active); n > 0 && st.active[n-1].frame == fr {
			run = st.active[n-1]
		}
		ev := x.newEval(fr, st, run)
		ev.hook = true
		if cl.Kind == "assert" {
			t := ev.boolExpr(cl.Expr)
			x.oblige(st, "assert", "line:"+cl.Label, t, cl.Tags, pos)
			continue
		}
		if cl.Kind == "assume" {
			// an assumption stated inside the function (listed in the evidence)
			st.assume(ev.boolExpr(cl.Expr))
			x.usedTypeInv["assumed at line \""+cl.AtLine+"\": "+cl.Src] = true
			continue
		}
		st.quiet++
		v := ev.eval(cl.Expr)
		st.quiet--
		for _, d := range ev.defs {
			st.assume(d)
		}
		ev.defs = nil
		if i := strings.LastIndex(cl.Label, "."); i > 0 {
			// ghost field of an object: base.field = v
			base, fld := cl.Label[:i], cl.Label[i+1:]
			g, isGhost := x.prog.cs.Ghosts[fld]
			if !isGhost {
				x.abort("at line set %s: %s is not a ghost field", cl.Label, fld)
			}
			be, err := x.prog.cs.parseExpr(base)
			if err != nil {
				x.abort("at line set %s: %v", cl.Label, err)
			}
			st.quiet++
			var ref Term
			if sv, isSlice := ev.eval(be).(*SliceV); isSlice {
				ref = sv.Ptr // ghost state of a slice is keyed by its backing array
			} else {
				ref = ev.term(be)
			}
			st.quiet--
			p, okp := v.(*Prim)
			if !okp {
				x.abort("at line set %s: not a primitive value", cl.Label)
			}
			key, arr := x.ghostLeaf(st, fld, g.Sort)
			x.checkFrame(st, key, ref)
			x.recordWrite(st, key)
			x.setHeap(st, key, Store(arr, ref, p.T))
			continue
		}
		id, ok := fr.ctx.ghost[cl.Label]
		if !ok {
			x.abort("at line set %s: unknown ghost variable", cl.Label)
		}
		c := st.cells[id]
		x.store(st, &Loc{Kind: LCell, CellID: id, Root: c.Typ, Typ: c.Typ}, v)
	}
}

// isClosureOf: f is a function literal (transitively) nested in g.
func isClosureOf(f, g *ssa.Function) bool {
	for p := f.Parent(); p != nil; p = p.Parent() {
		if p == g {
			return true
		}
	}
	return false
}
