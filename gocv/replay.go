package main

// Replay of a counterexample on the real code.
//
// Scope (stated in DESIGN.md S.1): obligations whose failure is a run-time panic (bounds, nil, div, conv,
// panic) in a package-level function of /repo whose parameters are scalars, slices of scalars or slices of
// structs of scalars. For such an obligation with answer `sat`, the solver is asked for the values of the
// parameters on the failing path; a test that calls the real function with these values is injected into
// the function's package with `go test -overlay` (nothing is written into /repo); if the call panics, the
// violation is reported as replayed (no `no-failing-input-found` suffix) and the replay file carries the
// inputs, the test and its output. Every other violation keeps the suffix: the model of a path that runs
// through a callee's contract need not be reproducible (the callee's result is only constrained by its
// contract), and models are rarely available for quantified queries.

import (
	"bytes"
	"context"
	"encoding/json"
	"fmt"
	"go/types"
	"os"
	"os/exec"
	"path/filepath"
	"regexp"
	"strconv"
	"strings"
	"time"

	"golang.org/x/tools/go/ssa"
)

const replayMaxElems = 8

type replayTerm struct {
	term string
	sort string // Int | Bool | F64
	val  string
}

func replayableKind(k string) bool {
	switch k {
	case "bounds", "nil", "div", "conv", "panic":
		return true
	}
	return false
}

func scalarSort(t types.Type) (string, bool) {
	b, ok := t.Underlying().(*types.Basic)
	if !ok {
		return "", false
	}
	switch {
	case b.Info()&types.IsBoolean != 0:
		return SBool, true
	case b.Info()&types.IsInteger != 0:
		return SInt, true
	case b.Kind() == types.Float64:
		return SF64, true
	}
	return "", false
}

// tryReplay: see the comment at the top of this file.
func tryReplay(cfg Config, p *Program, x *Exec, prop, name string, s *oblSummary, payload map[string]interface{}, path string) (confirmed bool) {
	defer func() {
		// whatever was learnt goes into the replay file
		if data, err := json.MarshalIndent(payload, "", " "); err == nil {
			os.WriteFile(path, data, 0o644)
		}
	}()
	note := func(f string, a ...interface{}) bool {
		payload["replay_note"] = fmt.Sprintf(f, a...)
		return false
	}
	if x == nil || s == nil || s.worst == nil || s.worst.node == nil || !replayableKind(s.Kind) || s.Status != "sat" {
		return note("no replay: not a run-time-panic obligation with a model (kind %v, status %v)", s.Kind, s.Status)
	}
	fn := p.funcs[s.Function]
	if fn == nil || fn.Signature.Recv() != nil || fn.Parent() != nil || fn.Pkg == nil || x.entryParams == nil {
		return note("no replay: only package-level functions with scalar / slice parameters are replayed")
	}
	q := x.buildQuery(s.worst.node)
	declared := func(sym string) bool { return strings.Contains(q, "(declare-const "+sym+" ") }
	var terms []*replayTerm
	add := func(term, sort string) *replayTerm {
		t := &replayTerm{term: term, sort: sort}
		terms = append(terms, t)
		return t
	}
	type sliceParam struct {
		ptr, off, length *replayTerm
		elems            [][]*replayTerm // [index][leaf]
		leaves           []Leaf
		elemT            types.Type
	}
	type param struct {
		name   string
		typ    types.Type
		scalar *replayTerm
		slice  *sliceParam
	}
	var params []*param
	for _, pv := range fn.Params {
		v := x.entryParams[pv.Name()]
		pr := &param{name: pv.Name(), typ: pv.Type()}
		switch w := v.(type) {
		case *Prim:
			srt, ok := scalarSort(pv.Type())
			if !ok {
				return note("no replay (2)")
			}
			pr.scalar = add(w.T.S, srt)
		case *SliceV:
			et := pv.Type().Underlying().(*types.Slice).Elem()
			sp := &sliceParam{elemT: et}
			sp.ptr, sp.off, sp.length = add(w.Ptr.S, SInt), add(w.Off.S, SInt), add(w.Len.S, SInt)
			if _, isStruct := et.Underlying().(*types.Struct); !isStruct {
				if _, ok := scalarSort(et); !ok {
					return note("no replay (3)")
				}
			}
			for _, l := range leavesOf(et) {
				if l.Sub != "" {
					return false // nested slices / interfaces
				}
				if _, ok := scalarSort(l.Typ); !ok {
					return note("no replay (4)")
				}
				sp.leaves = append(sp.leaves, l)
			}
			for i := 0; i < replayMaxElems; i++ {
				var row []*replayTerm
				for _, l := range sp.leaves {
					arr := sanitize("A|"+typeKey(et)+"|"+l.Path) + "@0"
					if !declared(arr) {
						row = append(row, &replayTerm{sort: l.Sort, val: ""}) // never read on this path: any value
						continue
					}
					row = append(row, add(fmt.Sprintf("(select (select %s %s) (sidx %s %d))", arr, w.Ptr.S, w.Off.S, i), l.Sort))
				}
				sp.elems = append(sp.elems, row)
			}
			pr.slice = sp
		default:
			return note("no replay (5)")
		}
		params = append(params, pr)
	}
	// ask the solver (old z3 answers pattern-free quantified queries with models most often)
	var body strings.Builder
	body.WriteString(q)
	// a small counterexample is asked for: slices of at most replayMaxElems elements
	for _, pr := range params {
		if pr.slice != nil {
			fmt.Fprintf(&body, "\n(assert (<= %s %d))", pr.slice.length.term, replayMaxElems)
		}
	}
	body.WriteString("\n(check-sat)\n")
	for _, t := range terms {
		fmt.Fprintf(&body, "(get-value (%s))\n", t.term)
	}
	file := filepath.Join(scratchDir, "replay-"+sanitize(name)+".smt2")
	if len(file) > 200 {
		file = file[:200] + ".smt2"
	}
	if err := os.WriteFile(file, []byte(body.String()), 0o644); err != nil {
		return note("no replay (6)")
	}
	defer os.Remove(file)
	var out string
	for _, sv := range [][]string{{"z3", "-T:20", file}, {"z3-new", "-T:20", file}} {
		ctx, cancel := context.WithTimeout(context.Background(), 25*time.Second)
		b, _ := exec.CommandContext(ctx, sv[0], sv[1:]...).CombinedOutput()
		cancel()
		if strings.HasPrefix(strings.TrimSpace(string(b)), "sat") {
			out = string(b)
			break
		}
	}
	if out == "" {
		return note("no model for the parameters within 20 s")
	}
	vals := parseGetValues(out, len(terms))
	if vals == nil {
		return note("solver answer not understood: %s", out)
	}
	for i, t := range terms {
		t.val = vals[i]
	}
	// Go source of the inputs
	imports := map[string]string{}
	qual := func(pk *types.Package) string {
		if pk == fn.Pkg.Pkg {
			return ""
		}
		imports[pk.Path()] = pk.Name()
		return pk.Name()
	}
	lit := func(t *replayTerm, typ types.Type) (string, bool) {
		ts := types.TypeString(typ, qual)
		switch t.sort {
		case SBool:
			if t.val == "" {
				return ts + "(false)", true
			}
			return ts + "(" + t.val + ")", t.val == "true" || t.val == "false"
		case SInt:
			if t.val == "" {
				return ts + "(0)", true
			}
			if _, err := strconv.ParseInt(t.val, 10, 64); err != nil {
				if _, err2 := strconv.ParseUint(t.val, 10, 64); err2 != nil {
					return "", false
				}
			}
			return ts + "(" + t.val + ")", true
		case SF64:
			if t.val == "" {
				// never read on the failing path (the path ran through a callee's contract): any value will do;
				// 1 rather than 0, because 0 tends to end in an early return of the real code
				return ts + "(1)", true
			}
			if !strings.HasPrefix(t.val, "#x") {
				return "", false
			}
			imports["math"] = "math"
			return ts + "(math.Float64frombits(0x" + t.val[2:] + "))", true
		}
		return "", false
	}
	var args []string
	inputs := map[string]interface{}{}
	for _, pr := range params {
		if pr.scalar != nil {
			l, ok := lit(pr.scalar, pr.typ)
			if !ok {
				return note("no replay (7)")
			}
			args = append(args, l)
			inputs[pr.name] = pr.scalar.val
			continue
		}
		sp := pr.slice
		n, err := strconv.Atoi(sp.length.val)
		if err != nil || n < 0 || n > replayMaxElems {
			return note("no replay (8)")
		}
		ts := types.TypeString(pr.typ, qual)
		if sp.ptr.val == "0" && n == 0 {
			args = append(args, ts+"(nil)")
			inputs[pr.name] = "nil"
			continue
		}
		var elems []string
		var shown []interface{}
		for i := 0; i < n; i++ {
			row := sp.elems[i]
			if len(sp.leaves) == 1 && sp.leaves[0].Path == "" {
				l, ok := lit(row[0], sp.elemT)
				if !ok {
					return note("no replay (9)")
				}
				elems = append(elems, l)
				shown = append(shown, row[0].val)
				continue
			}
			var fs []string
			rec := map[string]string{}
			for j, lf := range sp.leaves {
				l, ok := lit(row[j], lf.Typ)
				if !ok || strings.Contains(lf.Path, ".") {
					return false // nested structs are not rebuilt
				}
				fs = append(fs, lf.Path+": "+l)
				rec[lf.Path] = row[j].val
			}
			elems = append(elems, "{"+strings.Join(fs, ", ")+"}")
			shown = append(shown, rec)
		}
		args = append(args, ts+"{"+strings.Join(elems, ", ")+"}")
		inputs[pr.name] = shown
	}
	imports["fmt"] = "fmt"
	imports["testing"] = "testing"
	var src strings.Builder
	fmt.Fprintf(&src, "package %s\n\nimport (\n", fn.Pkg.Pkg.Name())
	for pth, nm := range imports {
		fmt.Fprintf(&src, "\t%s %q\n", nm, pth)
	}
	fmt.Fprintf(&src, ")\n\n// generated by gocv: replay of %s\nfunc TestGocvReplay(t *testing.T) {\n", name)
	src.WriteString("\tdefer func() {\n\t\tif r := recover(); r != nil {\n\t\t\tfmt.Printf(\"GOCV-REPLAY-PANIC: %v\\n\", r)\n\t\t\treturn\n\t\t}\n\t\tfmt.Println(\"GOCV-REPLAY-NO-PANIC\")\n\t}()\n")
	fmt.Fprintf(&src, "\t%s(%s)\n}\n", fn.Name(), strings.Join(args, ", "))
	payload["replay_inputs"] = inputs
	payload["go_test"] = src.String()
	txt, _, err := runReplayTest(cfg, funcKey(fn), src.String())
	if err != nil {
		return note("no replay: %v", err)
	}
	payload["replay_output"] = txt
	confirmed = strings.Contains(txt, "GOCV-REPLAY-PANIC")
	payload["replayed_on_real_code"] = confirmed
	return confirmed
}

var getValueRe = regexp.MustCompile(`\s(\(- \d+\)|#x[0-9a-fA-F]+|-?\d+|true|false)\)\)\s*$`)

// parseGetValues reads the answers of n consecutive (get-value (t)) commands after "sat".
func parseGetValues(out string, n int) []string {
	lines := strings.Split(strings.TrimSpace(out), "\n")
	if len(lines) < 1 || strings.TrimSpace(lines[0]) != "sat" {
		return nil
	}
	// an answer may span several lines when the term is long: join until parentheses balance
	var answers []string
	var cur strings.Builder
	depth := 0
	for _, l := range lines[1:] {
		cur.WriteString(l)
		cur.WriteString(" ")
		depth += strings.Count(l, "(") - strings.Count(l, ")")
		if depth == 0 && strings.TrimSpace(cur.String()) != "" {
			answers = append(answers, strings.TrimSpace(cur.String()))
			cur.Reset()
		}
	}
	if len(answers) < n {
		return nil
	}
	var vals []string
	for _, a := range answers[:n] {
		m := getValueRe.FindStringSubmatch(" " + a)
		if m == nil {
			return nil
		}
		v := m[1]
		if strings.HasPrefix(v, "(- ") {
			v = "-" + strings.TrimSuffix(strings.TrimPrefix(v, "(- "), ")")
		}
		vals = append(vals, v)
	}
	return vals
}

var _ = ssa.NaiveForm

// runReplayTest injects the test into the package of the function (go test -overlay; nothing is written into
// the repository) and runs it. fnKey is "<package path relative to the module>.<function>".
func runReplayTest(cfg Config, fnKey, src string) (string, bool, error) {
	rel := ""
	if i := strings.LastIndex(fnKey, "/"); i >= 0 {
		j := strings.Index(fnKey[i:], ".")
		rel = fnKey[:i+j]
	} else if j := strings.Index(fnKey, "."); j >= 0 {
		rel = fnKey[:j]
	}
	pkgDir := filepath.Join(cfg.Repo, rel)
	if scratchDir == "" {
		initScratch()
	}
	testFile := filepath.Join(scratchDir, "zz_gocv_replay_test.go")
	if err := os.WriteFile(testFile, []byte(src), 0o644); err != nil {
		return "", false, err
	}
	ov, _ := json.Marshal(map[string]interface{}{"Replace": map[string]string{filepath.Join(pkgDir, "zz_gocv_replay_test.go"): testFile}})
	ovFile := filepath.Join(scratchDir, "overlay.json")
	os.WriteFile(ovFile, ov, 0o644)
	ctx, cancel := context.WithTimeout(context.Background(), 180*time.Second)
	defer cancel()
	cmd := exec.CommandContext(ctx, "go", "test", "-overlay", ovFile, "-vet=off", "-count=1", "-v", "-timeout", "60s", "-run", "^TestGocvReplay$", "./"+rel)
	cmd.Dir = cfg.Repo
	cmd.Env = append(os.Environ(), "GOFLAGS=-mod=mod", "GOPROXY=off", "GOSUMDB=off", "GOTOOLCHAIN=local")
	var ob bytes.Buffer
	cmd.Stdout = &ob
	cmd.Stderr = &ob
	_ = cmd.Run()
	txt := ob.String()
	if len(txt) > 4000 {
		txt = txt[:4000]
	}
	return txt, strings.Contains(txt, "GOCV-REPLAY-PANIC"), nil
}
