package main

// Value-producing SSA instructions.

import (
	"fmt"
	"go/token"
	"go/types"
	"math"
	"strings"

	"golang.org/x/tools/go/ssa"
)

func (x *Exec) branch(alts ...func()) {
	for _, a := range alts {
		func() {
			defer func() {
				if r := recover(); r != nil {
					if _, ok := r.(pathEnd); ok {
						return
					}
					panic(r)
				}
			}()
			a()
		}()
	}
}

func (st *State) knownNonNil(r Term) bool { return st.nonNil[r.S] }
func (st *State) markNonNil(r Term) {
	n := make(map[string]bool, len(st.nonNil)+1)
	for k := range st.nonNil {
		n[k] = true
	}
	n[r.S] = true
	st.nonNil = n
}

// coerce adapts a value to the static type of its destination (nil constants, untyped values).
func (x *Exec) coerce(st *State, v Value, t types.Type) Value {
	if p, ok := v.(*PtrV); ok && p.Loc == nil {
		// nil constant stored into slice / map / iface / func / pointer
		return zeroValue(t)
	}
	return v
}

func (x *Exec) evalValue(fr *Frame, st *State, v ssa.Value, pred *ssa.BasicBlock) {
	switch w := v.(type) {
	case *ssa.Alloc:
		t := w.Type().(*types.Pointer).Elem()
		name := w.Comment
		l := x.newCell(st, t, name, w)
		fr.cellOf[w] = l.CellID
		fr.env[v] = &PtrV{Loc: l, Elem: t}
	case *ssa.UnOp:
		fr.env[v] = x.unop(fr, st, w)
	case *ssa.BinOp:
		a, b := x.get(fr, st, w.X), x.get(fr, st, w.Y)
		res := x.binop(st, w.Op, a, b, w.X.Type(), w.Pos())
		if p, ok := res.(*Prim); ok && p.T.Sort != SBool {
			hint := "v"
			if w.Op == token.MUL || w.Op == token.QUO || w.Op == token.REM {
				hint = "arith"
			}
			if hint == "arith" && p.T.Sort == SInt {
				_, la := isIntLit(x.termOf(a))
				_, lb := isIntLit(x.termOf(b))
				if (w.Op == token.MUL && !la && !lb) || (w.Op != token.MUL && !lb) {
					c := x.freshConst(st, "nl", SInt)
					st.push(&LogNode{Kind: KAssume, T: Eq(c, p.T), NL: true})
					p.T = c
				}
			}
			p.T = x.name(st, hint, p.T)
			p.Typ = w.Type()
		}
		fr.env[v] = res
	case *ssa.FieldAddr:
		p := x.get(fr, st, w.X).(*PtrV)
		x.nilCheck(st, p, w.Pos())
		st := p.Loc.Typ.Underlying().(*types.Struct)
		ft := st.Field(w.Field).Type()
		fr.env[v] = &PtrV{Loc: p.Loc.sub(w.Field, ft), Elem: ft}
	case *ssa.Field:
		sv := x.get(fr, st, w.X).(*StructV)
		fr.env[v] = sv.F[w.Field]
	case *ssa.IndexAddr:
		fr.env[v] = x.indexAddr(fr, st, w)
	case *ssa.Index:
		xv := x.get(fr, st, w.X)
		idx := x.get(fr, st, w.Index).(*Prim).T
		switch a := xv.(type) {
		case *ArrV:
			n, ok := isIntLit(idx)
			if !ok {
				// symbolic index into a small array value: ite chain
				x.safety(st, "bounds", And(Ge(idx, TZero), Lt(idx, IntLit(int64(len(a.E))))), w.Pos())
				fr.env[v] = x.iteChain(st, a, idx)
				return
			}
			if n < 0 || n >= int64(len(a.E)) {
				x.safety(st, "bounds", TFalse, w.Pos())
				panic(pathEnd{})
			}
			fr.env[v] = a.E[n]
		case *Prim: // string index
			x.safety(st, "bounds", And(Ge(idx, TZero), Lt(idx, app(SInt, "str_len", a.T))), w.Pos())
			fr.env[v] = &Prim{T: x.freshConst(st, "byte", SInt)}
		default:
			x.abort("index of %T", xv)
		}
	case *ssa.Slice:
		fr.env[v] = x.sliceOp(fr, st, w)
	case *ssa.MakeSlice:
		ln := x.get(fr, st, w.Len).(*Prim).T
		cp := x.get(fr, st, w.Cap).(*Prim).T
		x.safety(st, "makeslice", And(Ge(ln, TZero), Le(ln, cp)), w.Pos())
		et := w.Type().Underlying().(*types.Slice).Elem()
		fr.env[v] = x.makeSlice(st, et, ln, cp)
	case *ssa.MakeMap:
		fr.env[v] = x.makeMap(st, w.Type().Underlying().(*types.Map))
	case *ssa.MakeInterface:
		fr.env[v] = x.makeInterface(st, x.get(fr, st, w.X), w.X.Type())
	case *ssa.MakeClosure:
		fn := w.Fn.(*ssa.Function)
		var binds []Value
		for _, b := range w.Bindings {
			binds = append(binds, x.get(fr, st, b))
		}
		id := x.funcID(fn)
		if len(binds) > 0 {
			// a closure with captured variables is a distinct object; its code identity is ghost closfn
			id = x.newRef(st)
			k, arr := x.ghostLeaf(st, "closfn", SInt)
			st.heap[k] = x.name(st, "closfn", Store(arr, id, x.funcID(fn)))
			if len(binds) == 1 {
				if b, ok := binds[0].(*FuncV); ok && b.Fn != nil {
					k2, arr2 := x.ghostLeaf(st, "closbind0", SInt)
					st.heap[k2] = x.name(st, "closbind0", Store(arr2, id, b.ID))
				}
			}
		}
		fr.env[v] = &FuncV{Fn: fn, Bind: binds, ID: id}
	case *ssa.MakeChan:
		ref := x.newRef(st)
		// a new channel is open and nothing has been sent on it
		ck, closed := x.ghostLeaf(st, "chclosed", SBool)
		st.heap[ck] = x.name(st, "chclosed", Store(closed, ref, TFalse))
		sk, sent := x.ghostLeaf(st, "chsent", SInt)
		st.heap[sk] = x.name(st, "chsent", Store(sent, ref, TZero))
		fr.env[v] = &Prim{T: ref}
	case *ssa.ChangeType:
		fr.env[v] = x.get(fr, st, w.X)
	case *ssa.ChangeInterface:
		fr.env[v] = x.get(fr, st, w.X)
	case *ssa.Convert:
		fr.env[v] = x.convert(st, x.get(fr, st, w.X), w.X.Type(), w.Type(), w.Pos())
	case *ssa.SliceToArrayPointer:
		x.abort("slice to array pointer")
	case *ssa.TypeAssert:
		fr.env[v] = x.typeAssert(fr, st, w)
	case *ssa.Extract:
		t := x.get(fr, st, w.Tuple).(*TupleV)
		fr.env[v] = t.E[w.Index]
	case *ssa.Phi:
		for i, p := range w.Block().Preds {
			if p == pred {
				fr.env[v] = x.get(fr, st, w.Edges[i])
				return
			}
		}
		x.abort("phi without matching predecessor")
	case *ssa.Lookup:
		fr.env[v] = x.lookup(fr, st, w)
	case *ssa.Select:
		fr.env[v] = x.selectOp(fr, st, w)
	case *ssa.Range:
		fr.env[v] = x.rangeStart(fr, st, w)
	case *ssa.Next:
		fr.env[v] = x.rangeNext(fr, st, w)
	default:
		x.abort("unsupported value instruction %T (%s)", v, v)
	}
}

func (x *Exec) iteChain(st *State, a *ArrV, idx Term) Value {
	// only for arrays of scalars
	var res Term
	for i := len(a.E) - 1; i >= 0; i-- {
		p, ok := a.E[i].(*Prim)
		if !ok {
			x.abort("symbolic index into array of %T", a.E[i])
		}
		if i == len(a.E)-1 {
			res = p.T
		} else {
			res = Ite(Eq(idx, IntLit(int64(i))), p.T, res)
		}
	}
	return &Prim{T: res}
}

func (x *Exec) unop(fr *Frame, st *State, w *ssa.UnOp) Value {
	a := x.get(fr, st, w.X)
	switch w.Op {
	case token.MUL: // load
		p, ok := a.(*PtrV)
		if !ok {
			x.abort("load through %T", a)
		}
		x.nilCheck(st, p, w.Pos())
		return x.load(st, p.Loc)
	case token.NOT:
		return &Prim{T: Not(a.(*Prim).T)}
	case token.SUB:
		t := a.(*Prim).T
		if t.Sort == SF64 {
			return &Prim{T: app(SF64, "f_neg", t)}
		}
		return &Prim{T: Sub(TZero, t)}
	case token.ARROW:
		// channel receive: the received value is arbitrary (what other goroutines send is not modelled);
		// a receive never panics
		et := w.X.Type().Underlying().(*types.Chan).Elem()
		v := x.symbolic(st, et, "recv", false)
		if w.CommaOk {
			return &TupleV{E: []Value{v, &Prim{T: x.freshConst(st, "recvok", SBool)}}}
		}
		return v
	case token.XOR:
		x.abort("bitwise complement")
	}
	x.abort("unop %s", w.Op)
	return nil
}

func isFloatT(t types.Type) bool {
	b, ok := t.Underlying().(*types.Basic)
	return ok && b.Info()&types.IsFloat != 0
}
func isStringT(t types.Type) bool {
	b, ok := t.Underlying().(*types.Basic)
	return ok && b.Info()&types.IsString != 0
}
func isUnsignedT(t types.Type) bool {
	b, ok := t.Underlying().(*types.Basic)
	return ok && b.Info()&types.IsUnsigned != 0
}

func (x *Exec) binop(st *State, op token.Token, a, b Value, t types.Type, pos token.Pos) Value {
	// equality on non-scalar values
	if op == token.EQL || op == token.NEQ {
		e := x.valuesEqual(st, a, b, t)
		if op == token.NEQ {
			e = Not(e)
		}
		return &Prim{T: e}
	}
	pa, ok1 := a.(*Prim)
	pb, ok2 := b.(*Prim)
	if !ok1 || !ok2 {
		x.abort("binop %s on %T,%T", op, a, b)
	}
	l, r := pa.T, pb.T
	if isFloatT(t) {
		switch op {
		case token.ADD:
			return &Prim{T: x.fop("f_add", l, r)}
		case token.SUB:
			return &Prim{T: x.fop("f_sub", l, r)}
		case token.MUL:
			return &Prim{T: x.fop("f_mul", l, r)}
		case token.QUO:
			return &Prim{T: x.fop("f_div", l, r)}
		case token.LSS:
			return &Prim{T: app(SBool, "f_lt", l, r)}
		case token.LEQ:
			return &Prim{T: app(SBool, "f_le", l, r)}
		case token.GTR:
			return &Prim{T: app(SBool, "f_lt", r, l)}
		case token.GEQ:
			return &Prim{T: app(SBool, "f_le", r, l)}
		}
		x.abort("float binop %s", op)
	}
	if isStringT(t) {
		switch op {
		case token.ADD:
			return &Prim{T: app(SInt, "str_cat", l, r)}
		case token.LSS:
			return &Prim{T: Lt(l, r)}
		case token.LEQ:
			return &Prim{T: Le(l, r)}
		case token.GTR:
			return &Prim{T: Gt(l, r)}
		case token.GEQ:
			return &Prim{T: Ge(l, r)}
		}
		x.abort("string binop %s", op)
	}
	switch op {
	case token.ADD:
		return &Prim{T: x.wrap(Add(l, r), t)}
	case token.SUB:
		return &Prim{T: x.wrap(Sub(l, r), t)}
	case token.MUL:
		return &Prim{T: x.wrap(Mul(l, r), t)}
	case token.QUO:
		x.safety(st, "div0", Not(Eq(r, TZero)), pos)
		return &Prim{T: app(SInt, "go_div", l, r)}
	case token.REM:
		x.safety(st, "div0", Not(Eq(r, TZero)), pos)
		return &Prim{T: app(SInt, "go_mod", l, r)}
	case token.LSS:
		return &Prim{T: Lt(l, r)}
	case token.LEQ:
		return &Prim{T: Le(l, r)}
	case token.GTR:
		return &Prim{T: Gt(l, r)}
	case token.GEQ:
		return &Prim{T: Ge(l, r)}
	case token.SHL:
		if n, ok := isIntLit(r); ok && n >= 0 && n < 63 {
			return &Prim{T: x.wrap(Mul(l, IntLit(1<<uint(n))), t)}
		}
	case token.SHR:
		if n, ok := isIntLit(r); ok && n >= 0 && n < 63 {
			return &Prim{T: app(SInt, "div", l, IntLit(1<<uint(n)))}
		}
	case token.AND, token.OR, token.XOR, token.AND_NOT:
		if l.Sort == SBool {
			break
		}
		f := x.global("bit_"+map[token.Token]string{token.AND: "and", token.OR: "or", token.XOR: "xor", token.AND_NOT: "andnot"}[op], "")
		_ = f
	}
	x.abort("integer binop %s unsupported", op)
	return nil
}

// wrap models unsigned wrap-around for unsigned types; signed arithmetic is mathematical.
func (x *Exec) wrap(tm Term, t types.Type) Term {
	if isUnsignedT(t) {
		_, hi, ok := intRange(t)
		if ok {
			if _, lit := isIntLit(tm); lit {
				return tm
			}
			switch hi {
			case "18446744073709551615":
				return app(SInt, "mod", tm, Term{"18446744073709551616", SInt})
			case "4294967295":
				return app(SInt, "mod", tm, Term{"4294967296", SInt})
			case "65535":
				return app(SInt, "mod", tm, Term{"65536", SInt})
			case "255":
				return app(SInt, "mod", tm, Term{"256", SInt})
			}
		}
	}
	return tm
}

func (x *Exec) fop(op string, l, r Term) Term { return app(SF64, op, l, r) }

// valuesEqual: Go == on two values of static type t.
func (x *Exec) valuesEqual(st *State, a, b Value, t types.Type) Term {
	switch av := a.(type) {
	case *Prim:
		switch bv := b.(type) {
		case *Prim:
			if av.T.Sort == SF64 {
				return app(SBool, "f_eq", av.T, bv.T)
			}
			return Eq(av.T, bv.T)
		case *PtrV:
			if bv.Loc == nil {
				return Eq(av.T, TZero)
			}
		}
	case *PtrV:
		switch bv := b.(type) {
		case *PtrV:
			return x.ptrEq(st, av, bv)
		case *IfaceV:
			if av.Loc == nil {
				return Eq(bv.Tag, TZero)
			}
		case *SliceV:
			if av.Loc == nil {
				return x.sliceIsNil(bv)
			}
		case *MapV:
			if av.Loc == nil {
				return Eq(bv.Ref, TZero)
			}
		case *FuncV:
			if av.Loc == nil {
				return Eq(bv.ID, TZero)
			}
		case *Prim:
			if av.Loc == nil {
				return Eq(bv.T, TZero)
			}
		}
	case *IfaceV:
		switch bv := b.(type) {
		case *IfaceV:
			// an interface value is nil iff its type tag is 0
			if bv.Tag.S == "0" {
				return Eq(av.Tag, TZero)
			}
			if av.Tag.S == "0" {
				return Eq(bv.Tag, TZero)
			}
			return And(Eq(av.Tag, bv.Tag), Or(Eq(av.Tag, TZero), Eq(av.Data, bv.Data)))
		case *PtrV:
			if bv.Loc == nil {
				return Eq(av.Tag, TZero)
			}
		}
	case *SliceV:
		if bv, ok := b.(*PtrV); ok && bv.Loc == nil {
			return x.sliceIsNil(av)
		}
		if bv, ok := b.(*SliceV); ok {
			// only nil comparisons are legal in Go; zeroValue slices stand for nil
			if bv.Ptr.S == "0" && bv.Cap.S == "0" {
				return x.sliceIsNil(av)
			}
			if av.Ptr.S == "0" && av.Cap.S == "0" {
				return x.sliceIsNil(bv)
			}
		}
	case *MapV:
		if bv, ok := b.(*PtrV); ok && bv.Loc == nil {
			return Eq(av.Ref, TZero)
		}
		if bv, ok := b.(*MapV); ok {
			return Eq(av.Ref, bv.Ref)
		}
	case *FuncV:
		if bv, ok := b.(*PtrV); ok && bv.Loc == nil {
			return Eq(av.ID, TZero)
		}
		if bv, ok := b.(*FuncV); ok {
			return Eq(av.ID, bv.ID)
		}
	case *StructV:
		if bv, ok := b.(*StructV); ok {
			u := av.Typ.Underlying().(*types.Struct)
			var cs []Term
			for i := range av.F {
				cs = append(cs, x.valuesEqual(st, av.F[i], bv.F[i], u.Field(i).Type()))
			}
			return And(cs...)
		}
	case *ArrV:
		if bv, ok := b.(*ArrV); ok {
			u := av.Typ.Underlying().(*types.Array)
			var cs []Term
			for i := range av.E {
				cs = append(cs, x.valuesEqual(st, av.E[i], bv.E[i], u.Elem()))
			}
			return And(cs...)
		}
	}
	x.abort("equality on %T and %T", a, b)
	return Term{}
}

// sliceIsNil: a slice is nil iff its backing reference is 0 (make() always yields a non-zero ref).
func (x *Exec) sliceIsNil(s *SliceV) Term { return Eq(s.Ptr, TZero) }

func (x *Exec) ptrEq(st *State, a, b *PtrV) Term {
	if a.Loc == nil && b.Loc == nil {
		return TTrue
	}
	if a.Loc == nil {
		a, b = b, a
	}
	if b.Loc == nil {
		switch a.Loc.Kind {
		case LCell, LGlobal:
			return TFalse
		case LObj:
			if len(a.Loc.Path) == 0 {
				return Eq(a.Loc.Ref, TZero)
			}
			return TFalse
		case LElem:
			return TFalse
		}
	}
	if a.Loc.Kind == LCell && b.Loc.Kind == LCell && !st.cells[a.Loc.CellID].Mat && !st.cells[b.Loc.CellID].Mat {
		return BoolLit(a.Loc.CellID == b.Loc.CellID && fmt.Sprint(a.Loc.Path) == fmt.Sprint(b.Loc.Path))
	}
	return Eq(x.refOf(st, a.Loc), x.refOf(st, b.Loc))
}

func (x *Exec) indexAddr(fr *Frame, st *State, w *ssa.IndexAddr) Value {
	xv := x.get(fr, st, w.X)
	idx := x.get(fr, st, w.Index).(*Prim).T
	switch a := xv.(type) {
	case *SliceV:
		x.safety(st, "bounds", And(Ge(idx, TZero), Lt(idx, a.Len)), w.Pos())
		return &PtrV{Loc: &Loc{Kind: LElem, Ref: a.Ptr, Idx: Sidx(a.Off, idx), Root: a.Elem, Typ: a.Elem}, Elem: a.Elem}
	case *PtrV: // pointer to array
		x.nilCheck(st, a, w.Pos())
		at := a.Loc.Typ.Underlying().(*types.Array)
		n, ok := isIntLit(idx)
		if !ok {
			x.abort("symbolic index into array object")
		}
		if n < 0 || n >= at.Len() {
			x.safety(st, "bounds", TFalse, w.Pos())
			panic(pathEnd{})
		}
		return &PtrV{Loc: a.Loc.sub(int(n), at.Elem()), Elem: at.Elem()}
	}
	x.abort("indexaddr on %T", xv)
	return nil
}

func (x *Exec) makeSlice(st *State, et types.Type, ln, cp Term) *SliceV {
	r := x.newRef(st)
	for _, l := range leavesOf(et) {
		key, arr := x.heapLeaf(st, "A", et, l.Path, l.Sort)
		x.recordWrite(st, key)
		x.setHeap(st, key, Store(arr, r, ZeroOf(ArrSort(l.Sort))))
	}
	return &SliceV{Ptr: r, Off: TZero, Len: ln, Cap: cp, Elem: et}
}

func (x *Exec) sliceOp(fr *Frame, st *State, w *ssa.Slice) Value {
	xv := x.get(fr, st, w.X)
	opt := func(v ssa.Value) (Term, bool) {
		if v == nil {
			return Term{}, false
		}
		return x.get(fr, st, v).(*Prim).T, true
	}
	lo, hasLo := opt(w.Low)
	hi, hasHi := opt(w.High)
	mx, hasMax := opt(w.Max)
	if !hasLo {
		lo = TZero
	}
	switch a := xv.(type) {
	case *SliceV:
		if !hasHi {
			hi = a.Len
		}
		capEnd := a.Cap
		if hasMax {
			capEnd = mx
			x.safety(st, "bounds", And(Le(hi, mx), Le(mx, a.Cap)), w.Pos())
		}
		x.safety(st, "bounds", And(Ge(lo, TZero), Le(lo, hi), Le(hi, a.Cap)), w.Pos())
		return &SliceV{Ptr: a.Ptr, Off: SidxOff(a.Off, lo), Len: Sub(hi, lo), Cap: Sub(capEnd, lo), Elem: a.Elem}
	case *PtrV: // pointer to array: materialise as a backing array
		at := a.Loc.Typ.Underlying().(*types.Array)
		if a.Loc.Kind != LCell || len(a.Loc.Path) != 0 {
			x.abort("slicing a non-local array")
		}
		c := st.cells[a.Loc.CellID]
		n := IntLit(at.Len())
		var ref Term
		if c.Mat {
			x.abort("slicing an escaped array")
		}
		// move the array into the element heap
		sl := x.makeSlice(st, at.Elem(), n, n)
		ref = sl.Ptr
		av := c.V.(*ArrV)
		if av.E == nil && at.Len() > 64 {
			av = &ArrV{Typ: av.Typ} // zeroed by makeSlice
		}
		for i, e := range av.E {
			x.storeObj(st, "A", at.Elem(), ref, IntLit(int64(i)), "", at.Elem(), e)
		}
		nc := *c
		nc.Arr = ref
		st.cells[a.Loc.CellID] = &nc
		if !hasHi {
			hi = n
		}
		x.safety(st, "bounds", And(Ge(lo, TZero), Le(lo, hi), Le(hi, n)), w.Pos())
		return &SliceV{Ptr: ref, Off: lo, Len: Sub(hi, lo), Cap: Sub(n, lo), Elem: at.Elem()}
	case *Prim: // string slicing
		return &Prim{T: x.freshConst(st, "substr", SInt)}
	}
	x.abort("slice of %T", xv)
	return nil
}

func (x *Exec) makeInterface(st *State, v Value, t types.Type) Value {
	tag := x.typeTag(t)
	switch w := v.(type) {
	case *PtrV:
		if w.Loc == nil {
			return &IfaceV{Tag: tag, Data: TZero}
		}
		return &IfaceV{Tag: tag, Data: x.refOf(st, w.Loc)}
	case *Prim:
		if w.T.Sort == SInt {
			return &IfaceV{Tag: tag, Data: w.T}
		}
		if w.T.Sort == SBool {
			return &IfaceV{Tag: tag, Data: Ite(w.T, TOne, TZero)}
		}
	case *IfaceV:
		return w
	case *MapV:
		return &IfaceV{Tag: tag, Data: w.Ref}
	case *FuncV:
		return &IfaceV{Tag: tag, Data: w.ID}
	}
	// box
	r := x.newRef(st)
	x.storeObj(st, "H", t, r, Term{}, "", t, v)
	return &IfaceV{Tag: tag, Data: r}
}

func (x *Exec) unbox(st *State, data Term, t types.Type) Value {
	if _, ok := primSort(t); ok {
		switch t.Underlying().(type) {
		case *types.Pointer, *types.Map, *types.Signature:
			return scalarValue(data, t)
		}
		if s, _ := primSort(t); s == SInt {
			return &Prim{T: data}
		}
	}
	return x.loadObj(st, "H", t, data, Term{}, "", t)
}

func (x *Exec) typeAssert(fr *Frame, st *State, w *ssa.TypeAssert) Value {
	iv, ok := x.get(fr, st, w.X).(*IfaceV)
	if !ok {
		x.abort("type assert on %T", x.get(fr, st, w.X))
	}
	at := w.AssertedType
	var cond Term
	var val Value
	if types.IsInterface(at) {
		// asserted interface: dynamic type implements it
		cond = And(Not(Eq(iv.Tag, TZero)), x.implements(iv.Tag, at))
		val = iv
	} else {
		cond = Eq(iv.Tag, x.typeTag(at))
		if pt, ok := at.Underlying().(*types.Pointer); ok {
			if nt, ok := pt.Elem().(*types.Named); ok && nt.Obj().Pkg() != nil {
				for _, p := range x.prog.cs.BoxedNonNil {
					if qual(nt.Obj().Pkg()) == p {
						st.assume(Imp(cond, Not(Eq(iv.Data, TZero))))
						x.usedTypeInv["boxednonnil "+p] = true
					}
				}
			}
		}
	}
	if w.CommaOk {
		if val == nil {
			// value is only meaningful when cond holds; build it under that assumption lazily
			val = x.unbox(st, iv.Data, at)
		}
		return &TupleV{E: []Value{val, &Prim{T: cond}}}
	}
	x.safety(st, "typeassert", cond, w.Pos())
	if val == nil {
		val = x.unbox(st, iv.Data, at)
	}
	return val
}

func (x *Exec) implements(tag Term, iface types.Type) Term {
	// decide statically over the known tag table
	var alts []Term
	for i, t := range x.tagTypes {
		if types.Implements(t, iface.Underlying().(*types.Interface)) {
			alts = append(alts, Eq(tag, IntLit(int64(i+1))))
		}
	}
	f := x.globalFun("implements_"+sanitize(typeKey(iface)), "(Int) Bool")
	return Or(append(alts, app(SBool, f, tag))...)
}

func (x *Exec) globalFun(name, sig string) string {
	if _, ok := x.globalFuns[name]; !ok {
		x.globalFuns[name] = sig
		x.globalFunOrder = append(x.globalFunOrder, name)
	}
	return name
}

func (x *Exec) convert(st *State, v Value, from, to types.Type, pos token.Pos) Value {
	p, ok := v.(*Prim)
	if !ok {
		// []byte <-> string etc.
		if _, isSlice := v.(*SliceV); isSlice && isStringT(to) {
			return &Prim{T: x.freshConst(st, "str", SInt)}
		}
		if _, ok := v.(*PtrV); ok {
			return v
		}
		x.abort("convert %T", v)
	}
	fb, _ := from.Underlying().(*types.Basic)
	tb, _ := to.Underlying().(*types.Basic)
	if fb == nil || tb == nil {
		if isStringT(from) {
			// string -> []byte
			x.abort("string to slice conversion")
		}
		return v
	}
	switch {
	case fb.Info()&types.IsInteger != 0 && tb.Info()&types.IsInteger != 0:
		_, hiT, _ := intRange(to)
		loF, hiF, _ := intRange(from)
		if isUnsignedT(to) {
			if isUnsignedT(from) && len(hiF) <= len(hiT) {
				return v
			}
			return &Prim{T: x.wrap(p.T, to)}
		}
		// signed target
		if !isUnsignedT(from) {
			_ = loF
			return v // widening or same; narrowing signed is assumed to fit (noted)
		}
		// unsigned -> signed of same width wraps
		if hiF == "18446744073709551615" && (hiT == "9223372036854775807") {
			return &Prim{T: Ite(Gt(p.T, BigLit("9223372036854775807")), Sub(p.T, Term{"18446744073709551616", SInt}), p.T)}
		}
		return v
	case fb.Info()&types.IsInteger != 0 && tb.Info()&types.IsFloat != 0:
		if n, ok := isIntLit(p.T); ok {
			return &Prim{T: F64Bits(math.Float64bits(float64(n)))}
		}
		return &Prim{T: app(SF64, "f_of_int", p.T)}
	case fb.Info()&types.IsFloat != 0 && tb.Info()&types.IsInteger != 0:
		inRange := And(Not(app(SBool, "f_isnan", p.T)),
			app(SBool, "f_lt", p.T, F64Bits(math.Float64bits(9.223372036854775807e18))),
			app(SBool, "f_le", F64Bits(math.Float64bits(-9.223372036854775808e18)), p.T))
		if fc := x.curFunc; fc != nil && fc.contract != nil {
			for _, ic := range fc.contract.ImplConv {
				if strings.Contains(x.prog.sourceLine(pos), ic) {
					r := x.freshConst(st, "implconv", SInt)
					st.assume(Imp(inRange, Eq(r, app(SInt, "f_to_int", p.T))))
					x.note("implementation-defined float->int conversion accepted at: " + ic)
					return &Prim{T: r}
				}
			}
		}
		x.oblige(st, "conv", x.prog.sourceLine(pos), inRange, []string{"C13"}, pos)
		return &Prim{T: app(SInt, "f_to_int", p.T)}
	case fb.Info()&types.IsFloat != 0 && tb.Info()&types.IsFloat != 0:
		return v
	case fb.Info()&types.IsString != 0 && tb.Info()&types.IsString != 0:
		return v
	case fb.Info()&types.IsInteger != 0 && tb.Info()&types.IsString != 0:
		return &Prim{T: x.freshConst(st, "str", SInt)}
	}
	x.abort("convert %s -> %s", from, to)
	return nil
}

func (x *Exec) selectOp(fr *Frame, st *State, w *ssa.Select) Value {
	// select: index is -1 (default, non-blocking only) or one of the cases; which case is ready depends on
	// other goroutines and is arbitrary; received values are havoc
	idx := x.freshConst(st, "select", SInt)
	lo := IntLit(-1)
	if w.Blocking {
		lo = TZero
	}
	st.assume(And(Ge(idx, lo), Lt(idx, IntLit(int64(len(w.States))))))
	res := []Value{&Prim{T: idx}, &Prim{T: x.freshConst(st, "recvok", SBool)}}
	for i, s := range w.States {
		if p, ok := x.get(fr, st, s.Chan).(*Prim); ok && p.DoneOf != nil {
			// receiving from ctx.Done() means the context is done (ghost ctxdone)
			_, arr := x.ghostLeaf(st, "ctxdone", SBool)
			st.assume(Imp(Eq(idx, IntLit(int64(i))), Select(arr, *p.DoneOf)))
		}
		if s.Dir == types.RecvOnly {
			ct := s.Chan.Type().Underlying().(*types.Chan).Elem()
			res = append(res, x.symbolic(st, ct, "recv", false))
		} else {
			x.chanSend(st, x.get(fr, st, s.Chan), Eq(idx, IntLit(int64(i))), w.Pos())
		}
	}
	return &TupleV{E: res}
}

func (x *Exec) termOf(v Value) Term {
	if p, ok := v.(*Prim); ok {
		return p.T
	}
	return Term{}
}

// ------------------------------------------------------------------------------------------------
// Concurrency primitives, abstracted sequentially (DESIGN.md S.1): the obligations are about panics only.
//   ghost chclosed[ch]  the channel has been closed           ghost chsent[ch]  number of sends so far
// A send on a closed channel and a close of a closed or nil channel panic; blocking is not modelled.
// Assumed (listed in the evidence): no other goroutine closes a channel the function sends on or closes.

func (x *Exec) chanRef(v Value) Term {
	switch w := v.(type) {
	case *Prim:
		return w.T
	case *PtrV:
		if w.Loc == nil {
			return TZero
		}
	}
	x.abort("channel value %T", v)
	return Term{}
}

func (x *Exec) chanSend(st *State, ch Value, guard Term, pos token.Pos) {
	ref := x.chanRef(ch)
	ck, closed := x.ghostLeaf(st, "chclosed", SBool)
	_ = ck
	x.oblige(st, "chan", "send-on-open-channel: "+x.prog.sourceLine(pos), Imp(guard, Not(Select(closed, ref))), []string{"C13"}, pos)
	sk, sent := x.ghostLeaf(st, "chsent", SInt)
	x.checkFrame(st, sk, ref)
	x.recordWrite(st, sk)
	st.heap[sk] = x.name(st, "chsent", Store(sent, ref, Term{fmt.Sprintf("(ite %s (+ %s 1) %s)", guard.S, Select(sent, ref).S, Select(sent, ref).S), SInt}))
}

func (x *Exec) chanClose(st *State, ch Value, pos token.Pos) {
	ref := x.chanRef(ch)
	ck, closed := x.ghostLeaf(st, "chclosed", SBool)
	x.oblige(st, "chan", "close-of-open-non-nil-channel: "+x.prog.sourceLine(pos), And(Not(Eq(ref, TZero)), Not(Select(closed, ref))), []string{"C13"}, pos)
	x.checkFrame(st, ck, ref)
	x.recordWrite(st, ck)
	st.heap[ck] = x.name(st, "chclosed", Store(closed, ref, TTrue))
}

// goStmt: `go f(args)`. The spawned function runs concurrently; for the spawning function only this is
// modelled: the preconditions of f are obligations at the spawn point and everything f may assign is
// unknown from here on (havoc at the spawn point; later interference is not modelled, so functions with
// go statements carry only panic-safety and shape obligations). That the goroutine contains its panics is
// the separate `go:` obligation of the spawn sweep (check.go goSpawnReport).
func (x *Exec) goStmt(fr *Frame, st *State, v *ssa.Go) {
	c := v.Call
	if c.IsInvoke() {
		x.note("go statement on an interface method: effects not modelled")
		return
	}
	var args []Value
	for _, a := range c.Args {
		args = append(args, x.get(fr, st, a))
	}
	fv := x.get(fr, st, c.Value)
	f, ok := fv.(*FuncV)
	if !ok || f.Fn == nil {
		x.note("go statement on a function value: effects not modelled")
		return
	}
	key := funcKey(f.Fn)
	ct := x.prog.cs.Funcs[key]
	if ct == nil {
		x.note(fmt.Sprintf("go %s: no contract, effects not modelled", shortKey(key)))
		return
	}
	all := args
	// closure: the captured variables are visible to its contract under their names
	x.spawnBinds = map[string]Value{}
	for i, fv := range f.Fn.FreeVars {
		if i < len(f.Bind) {
			if pv, ok := f.Bind[i].(*PtrV); ok && pv.Loc != nil {
				x.spawnBinds[fv.Name()] = x.load(st, pv.Loc)
			}
		}
	}
	x.spawning = true
	x.applyContract(fr, st, ct, key, f.Fn.Signature, f.Fn, all, v.Pos(), func(st2 *State, _ Value) {})
	x.spawning = false
	x.spawnBinds = nil
}
