package main

// Maps (scalar keys), map iteration, special library functions modelled directly.

import (
	"go/token"
	"go/types"

	"golang.org/x/tools/go/ssa"
)

// map leaves: M|<maptype>|dom : ref -> key -> Bool ; M|..|len : ref -> Int ; M|..|val.<leaf> : ref -> key -> sort
func (x *Exec) mapLeaf(st *State, mt *types.Map, leaf string, sort string) (string, Term) {
	key := "M|" + typeKey(mt) + "|" + leaf
	if t, ok := st.heap[key]; ok {
		return key, t
	}
	var s string
	if leaf == "len" {
		s = ArrSort(SInt)
	} else {
		s = ArrSort(ArrSort(sort))
	}
	t := x.initialLeaf(st, key, s)
	st.heap[key] = t
	return key, t
}

func (x *Exec) keyTerm(st *State, k Value) Term {
	switch w := k.(type) {
	case *Prim:
		if w.T.Sort == SInt {
			return w.T
		}
	}
	x.abort("unsupported map key %T", k)
	return Term{}
}

func (x *Exec) makeMap(st *State, mt *types.Map) Value {
	r := x.newRef(st)
	k, dom := x.mapLeaf(st, mt, "dom", SBool)
	x.recordWrite(st, k)
	x.setHeap(st, k, Store(dom, r, ConstArr(SBool, TFalse)))
	k2, ln := x.mapLeaf(st, mt, "len", SInt)
	x.recordWrite(st, k2)
	x.setHeap(st, k2, Store(ln, r, TZero))
	return &MapV{Ref: r, Typ: mt}
}

func (x *Exec) mapHas(st *State, m *MapV, k Term) Term {
	_, dom := x.mapLeaf(st, m.Typ, "dom", SBool)
	return Select(Select(dom, m.Ref), k)
}

func (x *Exec) mapValue(st *State, m *MapV, k Term) Value {
	vt := m.Typ.Elem()
	v := buildValue(vt, func(l Leaf) Term {
		_, arr := x.mapLeaf(st, m.Typ, join("val", l.Path), l.Sort)
		tm := Select(Select(arr, m.Ref), k)
		x.assumeLeafFacts(st, tm, l, false)
		return tm
	})
	x.valueFacts(st, v, vt)
	return v
}

func (x *Exec) lookup(fr *Frame, st *State, w *ssa.Lookup) Value {
	xv := x.get(fr, st, w.X)
	m, ok := xv.(*MapV)
	if !ok {
		if _, isStr := xv.(*Prim); isStr {
			return &Prim{T: x.freshConst(st, "byte", SInt)}
		}
		x.abort("lookup on %T", xv)
	}
	k := x.keyTerm(st, x.get(fr, st, w.Index))
	has := And(Not(Eq(m.Ref, TZero)), x.mapHas(st, m, k))
	val := x.mapValue(st, m, k)
	// absent keys yield the zero value
	vt := m.Typ.Elem()
	zero := zeroValue(vt)
	zt := x.flattenValue(st, zero, vt)
	vtms := x.flattenValue(st, val, vt)
	i := 0
	sel := buildValue(vt, func(l Leaf) Term {
		t := Ite(has, vtms[i], zt[i])
		i++
		return t
	})
	x.tagOrigin(sel, vt, "map:"+typeKey(m.Typ))
	if w.CommaOk {
		return &TupleV{E: []Value{sel, &Prim{T: has}}}
	}
	return sel
}

func (x *Exec) mapUpdate(fr *Frame, st *State, w *ssa.MapUpdate) {
	m, ok := x.get(fr, st, w.Map).(*MapV)
	if !ok {
		x.abort("map update on %T", x.get(fr, st, w.Map))
	}
	x.safety(st, "mapnil", Not(Eq(m.Ref, TZero)), w.Pos())
	k := x.keyTerm(st, x.get(fr, st, w.Key))
	v := x.coerce(st, x.get(fr, st, w.Value), m.Typ.Elem())
	had := x.mapHas(st, m, k)
	dk, dom := x.mapLeaf(st, m.Typ, "dom", SBool)
	x.checkFrame(st, dk, m.Ref)
	x.recordWrite(st, dk)
	x.setHeap(st, dk, Store(dom, m.Ref, Store(Select(dom, m.Ref), k, TTrue)))
	lk, ln := x.mapLeaf(st, m.Typ, "len", SInt)
	x.recordWrite(st, lk)
	x.setHeap(st, lk, Store(ln, m.Ref, Ite(had, Select(ln, m.Ref), Add(Select(ln, m.Ref), TOne))))
	if x.initRecord != nil {
		x.initRecord[m.Ref.S] = append(x.initRecord[m.Ref.S], mapUpd{key: k, val: v})
	}
	vt := m.Typ.Elem()
	terms := x.flattenValue(st, v, vt)
	for i, l := range leavesOf(vt) {
		vk, arr := x.mapLeaf(st, m.Typ, join("val", l.Path), l.Sort)
		x.recordWrite(st, vk)
		x.setHeap(st, vk, Store(arr, m.Ref, Store(Select(arr, m.Ref), k, terms[i])))
	}
}

func (x *Exec) mapDelete(st *State, m *MapV, kv Value) {
	k := x.keyTerm(st, kv)
	had := x.mapHas(st, m, k)
	dk, dom := x.mapLeaf(st, m.Typ, "dom", SBool)
	x.checkFrame(st, dk, m.Ref)
	x.recordWrite(st, dk)
	x.setHeap(st, dk, Store(dom, m.Ref, Store(Select(dom, m.Ref), k, TFalse)))
	lk, ln := x.mapLeaf(st, m.Typ, "len", SInt)
	x.recordWrite(st, lk)
	x.setHeap(st, lk, Store(ln, m.Ref, Ite(had, Sub(Select(ln, m.Ref), TOne), Select(ln, m.Ref))))
}

// Map iteration: the iterator is opaque; each Next yields an arbitrary key of the domain (or ends).
// Nothing is concluded about which keys were visited; invariants must be order-independent.
type rangeIter struct {
	m   *MapV
	str bool
}

func (x *Exec) rangeStart(fr *Frame, st *State, w *ssa.Range) Value {
	switch m := x.get(fr, st, w.X).(type) {
	case *MapV:
		return &rangeIter{m: m}
	case *Prim:
		return &rangeIter{str: true}
	}
	x.abort("range over %T", x.get(fr, st, w.X))
	return nil
}

func (x *Exec) rangeNext(fr *Frame, st *State, w *ssa.Next) Value {
	it := x.get(fr, st, w.Iter).(*rangeIter)
	ok := x.freshConst(st, "rangeok", SBool)
	if it.str {
		return &TupleV{E: []Value{&Prim{T: ok}, &Prim{T: x.freshConst(st, "ri", SInt)}, &Prim{T: x.freshConst(st, "rune", SInt)}}}
	}
	k := x.freshConst(st, "rangekey", SInt)
	st.assume(Imp(ok, x.mapHas(st, it.m, k)))
	st.assume(Imp(ok, Not(Eq(it.m.Ref, TZero))))
	kt := it.m.Typ.Key()
	x.assumeLeafFacts(st, k, Leaf{Sort: SInt, Typ: kt}, true)
	var kv Value = &Prim{T: k}
	return &TupleV{E: []Value{&Prim{T: ok}, kv, x.mapValue(st, it.m, k)}}
}

// ------------------------------------------------------------------------------------------------
// Library functions with a direct model.

func (x *Exec) special(fr *Frame, st *State, fn *ssa.Function, key string, args []Value, pos token.Pos, k func(*State, Value)) bool {
	switch key {
	case "sync.(*Once).Do":
		p := args[0].(*PtrV)
		f := args[1].(*FuncV)
		cur := x.load(st, p.Loc).(*Prim).T
		st2 := st.clone()
		x.branch(func() {
			st.assume(Not(Eq(cur, TZero)))
			k(st, nil)
		}, func() {
			st2.assume(Eq(cur, TZero))
			x.store(st2, p.Loc, &Prim{T: TOne})
			if f.Fn == nil {
				x.abort("once.Do with opaque function")
			}
			x.callFunc(fr, st2, f.Fn, f.Bind, len(f.Bind), pos, func(st3 *State, _ Value) { k(st3, nil) })
		})
		return true
	case "sync.(*Mutex).Lock", "sync.(*Mutex).Unlock", "sync.(*RWMutex).Lock", "sync.(*RWMutex).Unlock",
		"sync.(*RWMutex).RLock", "sync.(*RWMutex).RUnlock", "sync.(*WaitGroup).Add", "sync.(*WaitGroup).Done", "sync.(*WaitGroup).Wait":
		x.note("%s modelled as a no-op (sequential execution)", key)
		k(st, nil)
		return true
	}
	return false
}

// assumeTypeInv assumes the declared invariants of an external type when one of its objects is
// dereferenced.
func (x *Exec) assumeTypeInv(st *State, p *PtrV) {
	if p.Loc == nil || p.Loc.Kind != LObj || len(p.Loc.Path) != 0 {
		return
	}
	tk := "*" + typeKey(p.Loc.Typ)
	invs := x.prog.cs.TypeInvs[tk]
	if len(invs) == 0 {
		return
	}
	for _, inv := range invs {
		ev := x.newEval(nil, st, nil)
		ev.callee = true
		ev.bind[inv.Var] = p
		t := ev.boolExpr(inv.Expr)
		st.assume(t)
		x.usedTypeInv[inv.Src] = true
	}
}
