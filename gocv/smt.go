package main

// SMT layer: terms are plain strings tagged with a sort; queries are run through a
// portfolio of the three installed solvers.

import (
	"bytes"
	"context"
	"fmt"
	"os"
	"os/exec"
	"path/filepath"
	"strings"
	"sync/atomic"
	"time"
)

const (
	SInt  = "Int"
	SBool = "Bool"
	SF64  = "(_ BitVec 64)"
	SSeqI = "(Array Int Int)"
	SSeqF = "(Array Int (_ BitVec 64))"
	SSeqB = "(Array Int Bool)"
)

type Term struct {
	S    string
	Sort string
}

func (t Term) String() string { return t.S }

func mk(sort string, f string, args ...interface{}) Term {
	return Term{S: fmt.Sprintf(f, args...), Sort: sort}
}

func IntLit(n int64) Term {
	if n < 0 {
		return Term{fmt.Sprintf("(- %d)", -n), SInt}
	}
	return Term{fmt.Sprintf("%d", n), SInt}
}

func BigLit(s string) Term { // decimal string, maybe negative
	if strings.HasPrefix(s, "-") {
		return Term{"(- " + s[1:] + ")", SInt}
	}
	return Term{s, SInt}
}

var (
	TTrue  = Term{"true", SBool}
	TFalse = Term{"false", SBool}
	TZero  = Term{"0", SInt}
	TOne   = Term{"1", SInt}
)

func BoolLit(b bool) Term {
	if b {
		return TTrue
	}
	return TFalse
}

func F64Bits(u uint64) Term { return Term{fmt.Sprintf("#x%016x", u), SF64} }

func app(sort, op string, args ...Term) Term {
	var sb strings.Builder
	sb.WriteString("(")
	sb.WriteString(op)
	for _, a := range args {
		sb.WriteString(" ")
		sb.WriteString(a.S)
	}
	sb.WriteString(")")
	return Term{sb.String(), sort}
}

func And(ts ...Term) Term {
	var xs []Term
	for _, t := range ts {
		if t.S == "true" {
			continue
		}
		if t.S == "false" {
			return TFalse
		}
		xs = append(xs, t)
	}
	if len(xs) == 0 {
		return TTrue
	}
	if len(xs) == 1 {
		return xs[0]
	}
	return app(SBool, "and", xs...)
}

func Or(ts ...Term) Term {
	var xs []Term
	for _, t := range ts {
		if t.S == "false" {
			continue
		}
		if t.S == "true" {
			return TTrue
		}
		xs = append(xs, t)
	}
	if len(xs) == 0 {
		return TFalse
	}
	if len(xs) == 1 {
		return xs[0]
	}
	return app(SBool, "or", xs...)
}

func Not(t Term) Term {
	if t.S == "true" {
		return TFalse
	}
	if t.S == "false" {
		return TTrue
	}
	if strings.HasPrefix(t.S, "(not ") {
		return Term{t.S[5 : len(t.S)-1], SBool}
	}
	return app(SBool, "not", t)
}

func Imp(a, b Term) Term {
	if a.S == "true" {
		return b
	}
	if a.S == "false" || b.S == "true" {
		return TTrue
	}
	return app(SBool, "=>", a, b)
}

func Eq(a, b Term) Term {
	if a.S == b.S {
		return TTrue
	}
	return app(SBool, "=", a, b)
}

func Ite(c, a, b Term) Term {
	if c.S == "true" {
		return a
	}
	if c.S == "false" {
		return b
	}
	if a.S == b.S {
		return a
	}
	return app(a.Sort, "ite", c, a, b)
}

func isIntLit(t Term) (int64, bool) {
	var n int64
	if _, err := fmt.Sscanf(t.S, "%d", &n); err == nil && fmt.Sprintf("%d", n) == t.S {
		return n, true
	}
	if strings.HasPrefix(t.S, "(- ") {
		if _, err := fmt.Sscanf(t.S, "(- %d)", &n); err == nil && fmt.Sprintf("(- %d)", n) == t.S {
			return -n, true
		}
	}
	return 0, false
}

func Add(a, b Term) Term {
	if x, ok := isIntLit(a); ok {
		if y, ok := isIntLit(b); ok {
			return IntLit(x + y)
		}
		if x == 0 {
			return b
		}
	}
	if y, ok := isIntLit(b); ok && y == 0 {
		return a
	}
	return app(SInt, "+", a, b)
}

func Sub(a, b Term) Term {
	if y, ok := isIntLit(b); ok {
		if x, ok := isIntLit(a); ok {
			return IntLit(x - y)
		}
		if y == 0 {
			return a
		}
	}
	return app(SInt, "-", a, b)
}

func Mul(a, b Term) Term {
	if x, ok := isIntLit(a); ok {
		if y, ok := isIntLit(b); ok {
			return IntLit(x * y)
		}
		if x == 1 {
			return b
		}
	}
	if y, ok := isIntLit(b); ok && y == 1 {
		return a
	}
	return app(SInt, "*", a, b)
}

// Sidx is the absolute index off+i of element i of a slice at offset off. It is an uninterpreted
// function with the defining axiom (pattern on sidx) so that quantified facts about slice elements
// can be instantiated by E-matching: no arithmetic has to be solved to match an index.
func Sidx(off, i Term) Term {
	if off.S == "0" {
		return i
	}
	return app(SInt, "sidx", off, i)
}

// SidxOff is the offset of the sub-slice s[lo:] of a slice at offset off.
func SidxOff(off, lo Term) Term {
	if lo.S == "0" {
		return off
	}
	return Sidx(off, lo)
}

func Lt(a, b Term) Term { return app(SBool, "<", a, b) }
func Le(a, b Term) Term { return app(SBool, "<=", a, b) }
func Gt(a, b Term) Term { return app(SBool, ">", a, b) }
func Ge(a, b Term) Term { return app(SBool, ">=", a, b) }

func Select(arr, idx Term) Term {
	// (Array Int X) -> X
	s := arr.Sort
	es := s[len("(Array Int ") : len(s)-1]
	return app(es, "select", arr, idx)
}

func Store(arr, idx, v Term) Term { return app(arr.Sort, "store", arr, idx, v) }

func ArrSort(elem string) string { return "(Array Int " + elem + ")" }

func ConstArr(elemSort string, v Term) Term {
	return Term{fmt.Sprintf("((as const %s) %s)", ArrSort(elemSort), v.S), ArrSort(elemSort)}
}

func ZeroOf(sort string) Term {
	switch sort {
	case SInt:
		return TZero
	case SBool:
		return TFalse
	case SF64:
		return F64Bits(0)
	}
	if strings.HasPrefix(sort, "(Array Int ") {
		es := sort[len("(Array Int ") : len(sort)-1]
		return ConstArr(es, ZeroOf(es))
	}
	panic("zero of sort " + sort)
}

// ------------------------------------------------------------------------------------------------
// Prelude shared by every query.

const basePrelude = `
(define-fun go_div ((a Int) (b Int)) Int
  (ite (> b 0) (ite (>= a 0) (div a b) (- (div (- a) b)))
               (ite (>= a 0) (- (div a (- b))) (div (- a) (- b)))))
(define-fun go_mod ((a Int) (b Int)) Int (- a (* b (go_div a b))))
(define-fun f_fp ((a (_ BitVec 64))) (_ FloatingPoint 11 53) ((_ to_fp 11 53) a))
(define-fun f_lt ((a (_ BitVec 64)) (b (_ BitVec 64))) Bool (fp.lt (f_fp a) (f_fp b)))
(define-fun f_le ((a (_ BitVec 64)) (b (_ BitVec 64))) Bool (fp.leq (f_fp a) (f_fp b)))
(define-fun f_eq ((a (_ BitVec 64)) (b (_ BitVec 64))) Bool (fp.eq (f_fp a) (f_fp b)))
(define-fun f_isnan ((a (_ BitVec 64))) Bool (fp.isNaN (f_fp a)))
(define-fun f_isinf ((a (_ BitVec 64))) Bool (fp.isInfinite (f_fp a)))
(define-fun f_isstale ((a (_ BitVec 64))) Bool (= a #x7ff0000000000002))
(define-fun f_neg ((a (_ BitVec 64))) (_ BitVec 64) (bvxor a #x8000000000000000))
(declare-fun f_add ((_ BitVec 64) (_ BitVec 64)) (_ BitVec 64))
(declare-fun f_sub ((_ BitVec 64) (_ BitVec 64)) (_ BitVec 64))
(declare-fun f_mul ((_ BitVec 64) (_ BitVec 64)) (_ BitVec 64))
(declare-fun f_div ((_ BitVec 64) (_ BitVec 64)) (_ BitVec 64))
(declare-fun f_of_int (Int) (_ BitVec 64))
(declare-fun f_to_int ((_ BitVec 64)) Int)
(declare-fun str_len (Int) Int)
(declare-fun str_cat (Int Int) Int)
(assert (= (str_len 0) 0))
(declare-fun sidx (Int Int) Int)
(assert (forall ((o Int) (i Int)) (! (= (sidx o i) (+ o i)) :pattern ((sidx o i)))))
(assert (forall ((o Int) (a Int) (b Int)) (! (= (sidx (sidx o a) b) (sidx o (+ a b))) :pattern ((sidx (sidx o a) b)))))
(define-fun imin ((a Int) (b Int)) Int (ite (<= a b) a b))
(define-fun imax ((a Int) (b Int)) Int (ite (>= a b) a b))
`

// ------------------------------------------------------------------------------------------------
// Solver portfolio.

type SolveResult struct {
	Status string // "unsat", "sat", "unknown", "timeout", "error"
	Solver string
	Ms     int64
	Model  string
	Raw    string
}

var queryCounter int64
var scratchDir string

func initScratch() {
	d, err := os.MkdirTemp("", "gocv-q-")
	if err != nil {
		panic(err)
	}
	scratchDir = d
}

func cleanupScratch() {
	if scratchDir != "" {
		os.RemoveAll(scratchDir)
	}
}

type solverSpec struct {
	name string
	argv func(file string, secs int) []string
	// transform the query text for this solver
	prep func(q string) string
}

var solvers = []solverSpec{
	{"z3-new", func(f string, s int) []string { return []string{"z3-new", fmt.Sprintf("-T:%d", s), f} }, func(q string) string { return q }},
	{"z3", func(f string, s int) []string { return []string{"z3", fmt.Sprintf("-T:%d", s), f} }, func(q string) string { return q }},
	{"cvc5", func(f string, s int) []string {
		return []string{"cvc5", "--lang=smt2", fmt.Sprintf("--tlimit=%d", s*1000), f}
	}, func(q string) string {
		return "(set-option :produce-models true)\n(set-logic ALL)\n" + q
	}},
}

func runSolver(sp solverSpec, q string, secs int, wantModel bool) SolveResult {
	n := atomic.AddInt64(&queryCounter, 1)
	file := filepath.Join(scratchDir, fmt.Sprintf("q%d-%s.smt2", n, sp.name))
	body := sp.prep(q) + "\n(check-sat)\n"
	if wantModel {
		body += "(get-model)\n"
	}
	if err := os.WriteFile(file, []byte(body), 0o644); err != nil {
		return SolveResult{Status: "error", Solver: sp.name, Raw: err.Error()}
	}
	defer os.Remove(file)
	ctx, cancel := context.WithTimeout(context.Background(), time.Duration(secs+2)*time.Second)
	defer cancel()
	argv := sp.argv(file, secs)
	cmd := exec.CommandContext(ctx, argv[0], argv[1:]...)
	var out bytes.Buffer
	cmd.Stdout = &out
	cmd.Stderr = &out
	t0 := time.Now()
	_ = cmd.Run()
	ms := time.Since(t0).Milliseconds()
	txt := out.String()
	first := strings.TrimSpace(strings.SplitN(txt, "\n", 2)[0])
	res := SolveResult{Solver: sp.name, Ms: ms, Raw: txt}
	switch {
	case first == "unsat":
		res.Status = "unsat"
	case first == "sat":
		res.Status = "sat"
		if i := strings.Index(txt, "\n"); i >= 0 {
			res.Model = txt[i+1:]
		}
	case first == "unknown":
		res.Status = "unknown"
	case first == "timeout" || ctx.Err() != nil || strings.Contains(txt, "timeout") || strings.Contains(txt, "interrupted"):
		res.Status = "timeout"
	default:
		res.Status = "error"
	}
	return res
}

// solve tries the portfolio in sequence with growing time limits. The first definite answer wins.
func solve(q string, budget int, wantModel bool) SolveResult {
	type step struct {
		s    int
		secs int
	}
	plan := []step{{0, 2}, {1, 3}, {2, 4}}
	if budget > 4 {
		plan = append(plan, step{0, budget}, step{2, budget}, step{1, budget})
	}
	var last SolveResult
	var total int64
	for _, st := range plan {
		r := runSolver(solvers[st.s], q, st.secs, wantModel)
		total += r.Ms
		if r.Status == "unsat" || r.Status == "sat" {
			r.Ms = total
			return r
		}
		if r.Status == "error" && last.Status != "" && last.Status != "error" {
			continue // keep the more informative previous answer
		}
		last = r
	}
	last.Ms = total
	return last
}
