package main

// Calls: builtins, contracts, inlining, interface dispatch.

import (
	"go/ast"
	"fmt"
	"go/token"
	"go/types"
	"strings"

	"golang.org/x/tools/go/ssa"
)

const maxInlineDepth = 6

func (x *Exec) contractFor(fn *ssa.Function) *Contract {
	if fn == nil {
		return nil
	}
	return x.prog.cs.Funcs[funcKey(fn)]
}

func (x *Exec) call(fr *Frame, st *State, instr ssa.Instruction, c *ssa.CallCommon, pos token.Pos, k func(*State, Value)) {
	var args []Value
	for _, a := range c.Args {
		args = append(args, x.get(fr, st, a))
	}
	fv := x.get(fr, st, c.Value)
	x.callWith(fr, st, c, fv, args, pos, k)
}

func (x *Exec) callWith(fr *Frame, st *State, c *ssa.CallCommon, fv Value, args []Value, pos token.Pos, k func(*State, Value)) {
	if c.IsInvoke() {
		x.invoke(fr, st, c, fv, args, pos, k)
		return
	}
	switch f := fv.(type) {
	case *ssa.Builtin:
		if f.Name() == "append" {
			x.appendCPS(fr, st, args, c, pos, k)
			return
		}
		k(st, x.builtin(fr, st, f, c, args, pos))
		return
	case *FuncV:
		if f.Fn != nil {
			all := append(append([]Value{}, f.Bind...), args...)
			x.callFunc(fr, st, f.Fn, all, len(f.Bind), pos, k)
			return
		}
		// opaque function value: field contract by origin
		if f.Origin != "" {
			if ct := x.prog.cs.Funcs["field:"+f.Origin]; ct != nil {
				sig := c.Signature()
				key := "field:" + f.Origin
				ord := st.callCount(fr.id, key) + 1
				x.callAsserts(fr, st, key, ord, nil, args, pos)
				k0 := k
				k = func(st2 *State, res Value) {
					st2.calls = &callEntry{frame: fr.id, top: topID(fr), key: key, res: res, parent: st2.calls}
					x.afterCall(fr, st2, key, nil, args, res)
					k0(st2, res)
				}
				x.applyContract(fr, st, ct, key, sig, nil, args, pos, k)
				return
			}
		}
		x.nilFuncCheck(st, f, pos)
		x.unknownCall(fr, st, "func value "+f.Origin, c.Signature(), args, pos, k)
		return
	}
	x.abort("call of %T", fv)
}

func (x *Exec) nilFuncCheck(st *State, f *FuncV, pos token.Pos) {
	x.safety(st, "nil", Not(Eq(f.ID, TZero)), pos)
}

func (x *Exec) callFunc(fr *Frame, st *State, fn *ssa.Function, args []Value, nbind int, pos token.Pos, k func(*State, Value)) {
	key := funcKey(fn)
	ord := st.callCount(fr.id, key) + 1
	x.callAsserts(fr, st, key, ord, fn, args[nbind:], pos)
	k0 := k
	k = func(st2 *State, res Value) {
		// remember the result of this call (callres() in contract expressions)
		st2.calls = &callEntry{frame: fr.id, top: topID(fr), key: key, res: res, parent: st2.calls}
		x.afterCall(fr, st2, key, fn, args[nbind:], res)
		k0(st2, res)
	}
	if sp := x.special(fr, st, fn, key, args, pos, k); sp {
		return
	}
	ct := x.prog.cs.Funcs[key]
	if ct != nil && !ct.Inline {
		x.applyContract(fr, st, ct, key, fn.Signature, fn, args[nbind:], pos, k)
		return
	}
	inRepo := fn.Pkg != nil && strings.HasPrefix(fn.Pkg.Pkg.Path(), modulePrefix)
	if fn.Pkg == nil && fn.Parent() != nil {
		for p := fn.Parent(); p != nil; p = p.Parent() {
			if p.Pkg != nil && strings.HasPrefix(p.Pkg.Pkg.Path(), modulePrefix) {
				inRepo = true
			}
		}
	}
	if len(fn.Blocks) > 0 && (inRepo || ct != nil) {
		// inline
		for p := fr; p != nil; p = p.parent {
			if p.fn == fn {
				x.abort("recursive call of %s without contract", key)
			}
		}
		if fr.depth >= maxInlineDepth {
			x.abort("inline depth exceeded at %s", key)
		}
		x.inline(fr, st, fn, args, nbind, pos, k)
		return
	}
	x.unknownCall(fr, st, key, fn.Signature, args[nbind:], pos, k)
}

// afterCall executes the `after <callee> set g = expr` ghost assignments of the function under
// verification once a call of callee has returned.
func (x *Exec) afterCall(fr *Frame, st *State, key string, fn *ssa.Function, args []Value, res Value) {
	if fr.ctx == nil || fr != fr.ctx.top || fr.ctx.contract == nil {
		return
	}
	for _, cl := range fr.ctx.contract.Sets {
		if cl.At != key {
			continue
		}
		ev := x.newEval(fr, st, nil)
		ict := x.prog.cs.Funcs[key]
		if fn != nil && len(fn.Params) > 0 {
			for i, p := range fn.Params {
				if i < len(args) {
					ev.bind["ARG_"+p.Name()] = args[i]
				}
			}
		} else if ict != nil {
			off := len(ict.Params) - len(args)
			for i, a := range args {
				if off >= 0 && off+i < len(ict.Params) {
					ev.bind["ARG_"+ict.Params[off+i]] = a
				}
			}
		}
		var results []Value
		switch r := res.(type) {
		case nil:
		case *TupleV:
			results = r.E
		default:
			results = []Value{r}
		}
		for i, r := range results {
			ev.bind[fmt.Sprintf("ARG_result%d", i)] = r
			if ict != nil && i < len(ict.Results) {
				ev.bind["ARG_"+ict.Results[i]] = r
			}
		}
		st.quiet++
		v := ev.eval(cl.Expr)
		st.quiet--
		// the target is a ghost cell of the top frame
		if id, ok := fr.ctx.ghost[cl.Label]; ok {
			c := st.cells[id]
			x.store(st, &Loc{Kind: LCell, CellID: id, Root: c.Typ, Typ: c.Typ}, v)
		} else {
			x.abort("after %s set %s: unknown ghost variable", key, cl.Label)
		}
	}
}

// callAsserts checks `at <callee> assert` clauses of the function under verification.
func (x *Exec) callAsserts(fr *Frame, st *State, key string, ord int, fn *ssa.Function, args []Value, pos token.Pos) {
	if fr.ctx == nil || fr != fr.ctx.top {
		return
	}
	ct := fr.ctx.contract
	if ct == nil {
		return
	}
	for _, cl := range ct.Asserts {
		if cl.At != key || (cl.AtN != 0 && cl.AtN != ord) {
			continue
		}
		if cl.AtLine != "" && !strings.Contains(x.prog.sourceLine(pos), cl.AtLine) {
			continue
		}
		for _, a := range args {
			x.materialize(st, a)
		}
		ev := x.newEval(fr, st, nil)
		// bind callee parameter names as $name
		if fn == nil {
			if ict := x.prog.cs.Funcs[key]; ict != nil && len(ict.Params) == len(args)+1 {
				for i, a := range args {
					ev.bind["ARG_"+ict.Params[i+1]] = a
				}
				if x.hookRecv != nil {
					// the receiver of an interface call is $<first declared parameter>
					ev.bind["ARG_"+ict.Params[0]] = x.hookRecv
				}
			} else if ict != nil && len(ict.Params) == len(args) {
				for i, a := range args {
					ev.bind["ARG_"+ict.Params[i]] = a
				}
			}
		}
		if fn != nil && len(fn.Params) == 0 {
			if ict := x.prog.cs.Funcs[key]; ict != nil {
				off := len(ict.Params) - len(args)
				for i, a := range args {
					if off >= 0 && off+i < len(ict.Params) {
						ev.bind["ARG_"+ict.Params[off+i]] = a
					}
				}
			}
		}
		if fn != nil {
			ps := fn.Params
			for i, p := range ps {
				if i < len(args) {
					ev.bind["ARG_"+p.Name()] = args[i]
					ev.bindT["ARG_"+p.Name()] = p.Type()
				}
			}
		}
		t := ev.boolExpr(cl.Expr)
		x.oblige(st, "assert", fmt.Sprintf("%s:%s", shortKey(key), cl.Label), t, cl.Tags, pos)
	}
}

func shortKey(k string) string {
	if i := strings.LastIndex(k, "/"); i >= 0 {
		return k[i+1:]
	}
	return k
}

func (x *Exec) inline(fr *Frame, st *State, fn *ssa.Function, args []Value, nbind int, pos token.Pos, k func(*State, Value)) {
	nf := x.newFrame(fn, fr)
	nf.callPos = pos
	for i, fvv := range fn.FreeVars {
		nf.env[fvv] = args[i]
	}
	for i, p := range fn.Params {
		nf.env[p] = args[nbind+i]
	}
	nf.ret = func(st2 *State, results []Value) {
		switch len(results) {
		case 0:
			k(st2, nil)
		case 1:
			k(st2, results[0])
		default:
			k(st2, &TupleV{E: results})
		}
	}
	x.run(nf, st, fn.Blocks[0], nil, 0)
}

// unknownCall: callee without contract and without body. Results are unconstrained; if every
// argument is a scalar the call is treated as a pure (deterministic) function of its arguments.
func (x *Exec) unknownCall(fr *Frame, st *State, key string, sig *types.Signature, args []Value, pos token.Pos, k func(*State, Value)) {
	x.note("unknown callee %s: results unconstrained, no heap effect assumed", key)
	x.unknown[key] = true
	// Frame rule (C12, C20): in a function whose frame is checked (it has an assigns clause) a callee
	// that is neither under contract nor inlined must not be handed shared mutable state: a method of
	// a sync / sync/atomic object, or a pointer to one of the engine's own structs.
	if fc := x.curFunc; fc != nil && fc.contract != nil && fc.contract.HasAssigns && mayWriteShared(sig) {
		x.oblige(st, "effect", "unverified callee may write shared state: "+shortKey(key), TFalse, []string{"C12", "C20"}, pos)
	}
	k(st, x.freshResults(st, sig, key))
}

func (x *Exec) freshResults(st *State, sig *types.Signature, hint string) Value {
	rs := sig.Results()
	var out []Value
	for i := 0; i < rs.Len(); i++ {
		out = append(out, x.symbolic(st, rs.At(i).Type(), shortKey(hint)+"_r", true))
	}
	switch len(out) {
	case 0:
		return nil
	case 1:
		return out[0]
	}
	return &TupleV{E: out}
}

func (x *Exec) invoke(fr *Frame, st *State, c *ssa.CallCommon, recv Value, args []Value, pos token.Pos, k func(*State, Value)) {
	it := c.Value.Type()
	key := typeKey(it) + "." + c.Method.Name()
	if iv, ok := recv.(*IfaceV); ok {
		x.safety(st, "nil", Not(Eq(iv.Tag, TZero)), pos)
	}
	{
		ord := st.callCount(fr.id, key) + 1
		x.hookRecv = recv
		x.callAsserts(fr, st, key, ord, nil, args, pos)
		x.hookRecv = nil
		k0 := k
		k = func(st2 *State, res Value) {
			st2.calls = &callEntry{frame: fr.id, top: topID(fr), key: key, res: res, parent: st2.calls}
			x.afterCall(fr, st2, key, nil, args, res)
			k0(st2, res)
		}
	}
	ct := x.prog.cs.Funcs[key]
	sig := c.Method.Type().(*types.Signature)
	if key == "context.Context.Done" {
		if iv, ok := recv.(*IfaceV); ok {
			d := iv.Data
			k(st, &Prim{T: x.freshConst(st, "donechan", SInt), DoneOf: &d})
			return
		}
	}
	if ct != nil {
		all := append([]Value{recv}, args...)
		x.applyContract(fr, st, ct, key, sig, nil, all, pos, k)
		return
	}
	x.unknownCall(fr, st, key, sig, args, pos, k)
}

// applyContract: assert pre, havoc frame, assume post.
func (x *Exec) materialize(st *State, v Value) {
	switch w := v.(type) {
	case *PtrV:
		if w.Loc != nil && w.Loc.Kind == LCell && len(w.Loc.Path) == 0 {
			x.refOf(st, w.Loc)
		}
	case *StructV:
		for _, f := range w.F {
			x.materialize(st, f)
		}
	case *TupleV:
		for _, f := range w.E {
			x.materialize(st, f)
		}
	}
}

func (x *Exec) applyContract(fr *Frame, st *State, ct *Contract, key string, sig *types.Signature, fn *ssa.Function, args []Value, pos token.Pos, k func(*State, Value)) {
	if ct.Kind == "func" && ct.Trusted == "" && !ct.HasAssigns && !ct.Pure {
		// the caller havocs exactly the callee's assigns set: a verified callee without one would be
		// assumed to write nothing without that ever being checked
		x.abort("callee %s is under contract but has no assigns clause (write `assigns nothing` or list what it writes)", key)
	}
	for _, a := range args {
		x.materialize(st, a)
	}
	ev := x.newEval(fr, st, nil)
	ev.callee = true
	// parameter names
	var names []string
	var ptypes []types.Type
	if fn != nil && len(ct.Params) == 0 {
		for _, p := range fn.Params {
			names = append(names, p.Name())
			ptypes = append(ptypes, p.Type())
		}
	} else {
		names = ct.Params
		// types: receiver (if invoke/method) then params
		if sig.Recv() != nil && fn != nil {
			ptypes = append(ptypes, sig.Recv().Type())
		} else if len(names) == sig.Params().Len()+1 {
			ptypes = append(ptypes, nil) // interface receiver
		}
		for i := 0; i < sig.Params().Len(); i++ {
			ptypes = append(ptypes, sig.Params().At(i).Type())
		}
	}
	if len(names) != len(args) {
		x.abort("contract %s: %d parameter names for %d arguments", key, len(names), len(args))
	}
	for i, n := range names {
		ev.bind[n] = args[i]
		if i < len(ptypes) {
			ev.bindT[n] = ptypes[i]
		}
	}
	for n, v := range x.spawnBinds {
		if _, ok := ev.bind[n]; !ok {
			ev.bind[n] = v
		}
	}
	for _, cl := range ct.Requires {
		t := ev.boolExpr(cl.Expr)
		x.oblige(st, "call-pre", fmt.Sprintf("%s:%s", shortKey(key), cl.Label), t, cl.Tags, pos)
	}
	wasPanicking := st.panicking
	ev.bind["PANICKING"] = &Prim{T: BoolLit(wasPanicking)}
	if ct.Panics == "may" && !st.panicking && x.panicPaths && !x.spawning {
		// the callee may panic instead of returning: a second path unwinds from here
		ps := st.clone()
		x.branch(func() {
			if ct.PanicsUnless != nil {
				pev := x.newEval(fr, ps, nil)
				pev.callee = true
				for n, v := range ev.bind {
					pev.bind[n] = v
					pev.bindT[n] = ev.bindT[n]
				}
				ps.assume(Not(pev.boolExpr(ct.PanicsUnless)))
			}
			x.havocAssigns(fr, ps, ct, ev, key)
			x.doPanic(fr, ps, pos, false)
		})
	}
	pre := st.clone()
	// havoc the callee's frame
	x.havocAssigns(fr, st, ct, ev, key)
	// the callee may allocate: the frontier moves (results are below the new frontier)
	na := x.freshConst(st, "alloc", SInt)
	st.assume(Ge(na, st.alloc))
	st.alloc = na
	// results
	var res Value
	var results []Value
	rs := sig.Results()
	if ct.Pure && rs.Len() > 0 {
		results = x.pureResults(st, key, sig, args)
	} else {
		for i := 0; i < rs.Len(); i++ {
			results = append(results, x.symbolic(st, rs.At(i).Type(), shortKey(key)+"_r", true))
		}
	}
	switch len(results) {
	case 0:
	case 1:
		res = results[0]
	default:
		res = &TupleV{E: results}
	}
	post := x.newEval(fr, st, nil)
	post.callee = true
	post.old = pre
	post.freshBase = &pre.alloc
	for n, v := range ev.bind {
		post.bind[n] = v
		post.bindT[n] = ev.bindT[n]
	}
	if ct.Recovers && wasPanicking {
		st.panicking = false
		st.recovered = true
	}
	rnames := ct.Results
	if len(rnames) == 0 && fn != nil {
		for i := 0; i < rs.Len(); i++ {
			if rs.At(i).Name() != "" && rs.At(i).Name() != "_" {
				rnames = append(rnames, rs.At(i).Name())
			} else {
				rnames = append(rnames, fmt.Sprintf("result%d", i))
			}
		}
	}
	for i, r := range results {
		if i < len(rnames) {
			post.bind[rnames[i]] = r
			post.bindT[rnames[i]] = rs.At(i).Type()
		}
		post.bind[fmt.Sprintf("result%d", i)] = r
		post.bindT[fmt.Sprintf("result%d", i)] = rs.At(i).Type()
	}
	if len(results) == 1 {
		post.bind["result"] = results[0]
		post.bindT["result"] = rs.At(0).Type()
	}
	// ghost variables of the callee that its postconditions mention are existential witnesses for the
	// caller: the callee proved the clauses for the final value of its ghost variable, the caller may
	// assume them for some value (a fresh constant).
	for _, gv := range ct.GhostVars {
		if _, bound := post.bind[gv.Name]; !bound {
			post.bind[gv.Name] = &Prim{T: x.freshConst(st, "ghostout."+gv.Name, ghostSort(gv.Sort))}
		}
	}
	if !x.spawning {
		// (the postconditions of a spawned goroutine hold when it ends, not at the spawn point)
		for _, cl := range ct.Ensures {
			if mentionsCallHistory(cl.Expr) {
				// callres/ncalls speak about the calls the callee made; in the caller's state they would
				// be evaluated over the caller's own call history: such clauses are proved for the callee
				// and give the caller nothing
				continue
			}
			st.assume(post.boolExpr(cl.Expr))
		}
	}
	if ct.Panics == "may" {
		x.usedMayPanic[key] = true
	}
	k(st, res)
}

func (x *Exec) pureResults(st *State, key string, sig *types.Signature, args []Value) []Value {
	if ct := x.prog.cs.Funcs[key]; ct != nil && ct.Returns != nil && len(ct.Params) == len(args) {
		ev := x.newEval(nil, st, nil)
		ev.callee = true
		for i, n := range ct.Params {
			ev.bind[n] = args[i]
		}
		st.quiet++
		v := ev.eval(ct.Returns)
		st.quiet--
		if p, ok := v.(*Prim); ok && p.Typ == nil && sig.Results().Len() == 1 {
			p.Typ = sig.Results().At(0).Type()
		}
		return []Value{v}
	}
	// uninterpreted function of the argument leaves, one per result leaf
	var argTerms []Term
	var sorts []string
	for _, a := range args {
		switch w := a.(type) {
		case *Prim:
			argTerms = append(argTerms, w.T)
		case *PtrV:
			if w.Loc == nil {
				argTerms = append(argTerms, TZero)
			} else {
				argTerms = append(argTerms, x.refOf(st, w.Loc))
			}
		case *IfaceV:
			argTerms = append(argTerms, w.Tag, w.Data)
		case *SliceV:
			argTerms = append(argTerms, w.Ptr, w.Off, w.Len)
		case *MapV:
			argTerms = append(argTerms, w.Ref)
		case *FuncV:
			argTerms = append(argTerms, w.ID)
		case *StructV:
			argTerms = append(argTerms, x.flattenValue(st, w, w.Typ)...)
		case *ArrV:
			argTerms = append(argTerms, x.flattenValue(st, w, w.Typ)...)
		default:
			x.abort("pure extern %s with argument %T", key, a)
		}
	}
	for _, a := range argTerms {
		sorts = append(sorts, a.Sort)
	}
	rs := sig.Results()
	var out []Value
	for i := 0; i < rs.Len(); i++ {
		rt := rs.At(i).Type()
		idx := i
		v := buildValue(rt, func(l Leaf) Term {
			name := x.globalFun(fmt.Sprintf("uf_%s_%d_%s", sanitize(key), idx, sanitize(l.Path)), "("+strings.Join(sorts, " ")+") "+l.Sort)
			if len(argTerms) == 0 {
				return Term{name, l.Sort}
			}
			tm := app(l.Sort, name, argTerms...)
			x.assumeLeafFacts(st, tm, l, true)
			return tm
		})
		x.valueFacts(st, v, rt)
		out = append(out, v)
	}
	return out
}

// havocAssigns applies a callee's assigns clause to the caller state.
//   T.f            whole leaf (all objects)
//   T.f@param      only the object denoted by the parameter
//   ghost g[@p], global g, elems(E)
func (x *Exec) havocAssigns(fr *Frame, st *State, ct *Contract, ev *Eval, key string) {
	for _, a := range ct.Assigns {
		a = x.prog.cs.expand(a)
		exExpr := ""
		if i := strings.Index(a, " except "); i >= 0 {
			exExpr = strings.TrimSpace(a[i+len(" except "):])
			a = strings.TrimSpace(a[:i])
		}
		at := ""
		if i := strings.Index(a, "@"); i >= 0 {
			at = a[i+1:]
			a = a[:i]
		}
		var objRef Term
		if at != "" {
			v, ok := ev.bind[at]
			if !ok {
				// an expression over the parameters, e.g. cast(data, promql.Matrix)
				e, err := x.prog.cs.parseExpr(at)
				if err != nil {
					x.abort("assigns %s@%s: %v", a, at, err)
				}
				st.quiet++
				v = ev.eval(e)
				st.quiet--
			}
			switch w := v.(type) {
			case *PtrV:
				objRef = x.refOf(st, w.Loc)
			case *IfaceV:
				objRef = w.Data
			case *SliceV:
				objRef = w.Ptr
			case *Prim:
				objRef = w.T
			default:
				x.abort("assigns @%s: not a reference", at)
			}
		}
		var keys []string
		switch {
		case strings.HasPrefix(a, "*"):
			// the location a pointer parameter points to
			pv, ok := ev.bind[a[1:]].(*PtrV)
			if !ok || pv.Loc == nil {
				x.abort("assigns %s: not a pointer parameter", a)
			}
			x.store(st, pv.Loc, x.symbolic(st, pv.Loc.Typ, "deref_"+a[1:], true))
			continue
		case strings.HasPrefix(a, "ghost "):
			g := strings.TrimPrefix(a, "ghost ")
			gf := x.prog.cs.Ghosts[g]
			if gf == nil {
				x.abort("assigns: unknown ghost %s", g)
			}
			k, _ := x.ghostLeaf(st, g, gf.Sort)
			keys = append(keys, k)
		case strings.HasPrefix(a, "global "):
			g := strings.TrimPrefix(a, "global ")
			for k := range st.heap {
				if strings.HasPrefix(k, "V|"+g+"|") {
					keys = append(keys, k)
				}
			}
		case strings.HasPrefix(a, "elems("):
			e := a[6 : len(a)-1]
			for k := range st.heap {
				if strings.HasPrefix(k, "A|"+e+"|") {
					keys = append(keys, k)
				}
			}
			x.pendingHavoc(st, "A|"+e+"|")
		default:
			i := strings.LastIndex(a, ".")
			if i < 0 {
				x.abort("bad assigns item %q", a)
			}
			t, f := a[:i], a[i+1:]
			for k := range st.heap {
				p := strings.SplitN(k, "|", 3)
				if len(p) == 3 && (p[0] == "H" || p[0] == "A") && p[1] == t && (f == "*" || p[2] == f || strings.HasPrefix(p[2], f+".")) {
					keys = append(keys, k)
				}
			}
			x.pendingHavoc(st, "H|"+t+"|"+f)
			x.pendingHavoc(st, "A|"+t+"|"+f)
		}
		for _, k := range keys {
			old := st.heap[k]
			x.checkFrame(st, k, objRef)
			x.recordWrite(st, k)
			fresh := x.freshConst(st, sanitize(k), old.Sort)
			if objRef.S != "" && strings.HasPrefix(old.Sort, "(Array Int ") && !strings.HasPrefix(k, "V|") {
				// only the entry of objRef changes
				st.heap[k] = x.freshConst(st, sanitize(k), old.Sort)
				st.assume(Eq(st.heap[k], Store(old, objRef, Select(fresh, objRef))))
			} else {
				st.heap[k] = fresh
			}
			if exExpr != "" && strings.HasPrefix(old.Sort, "(Array Int ") {
				// the excepted object keeps its contents
				e, err := x.prog.cs.parseExpr(exExpr)
				if err != nil {
					x.abort("assigns except %s: %v", exExpr, err)
				}
				st.quiet++
				v := ev.eval(e)
				st.quiet--
				var exRef Term
				switch w := v.(type) {
				case *PtrV:
					exRef = x.refOf(st, w.Loc)
				case *IfaceV:
					exRef = w.Data
				case *SliceV:
					exRef = w.Ptr
				case *Prim:
					exRef = w.T
				default:
					x.abort("assigns except %s: not a reference", exExpr)
				}
				st.assume(Eq(Select(st.heap[k], exRef), Select(old, exRef)))
			}
		}
	}
}

// pendingHavoc remembers that leaves with this key prefix were havoced by a callee before their
// first use on this path, so that a later first use does not resolve to the entry symbol.
func (x *Exec) pendingHavoc(st *State, prefix string) {
	for _, r := range st.active {
		if !r.info.modPats[prefix] {
			r.info.modPats[prefix] = true
			panic(restartLoop{r})
		}
	}
	for _, p := range st.havocPats {
		if p == prefix {
			return
		}
	}
	st.havocPats = append(st.havocPats, prefix)
}

// ------------------------------------------------------------------------------------------------
// Builtins

func (x *Exec) builtin(fr *Frame, st *State, b *ssa.Builtin, c *ssa.CallCommon, args []Value, pos token.Pos) Value {
	switch b.Name() {
	case "len":
		switch a := args[0].(type) {
		case *SliceV:
			return &Prim{T: a.Len}
		case *Prim:
			return &Prim{T: app(SInt, "str_len", a.T)}
		case *MapV:
			_, arr := x.mapLeaf(st, a.Typ, "len", SInt)
			l := Select(arr, a.Ref)
			st.assume(Ge(l, TZero))
			return &Prim{T: l}
		case *ArrV:
			return &Prim{T: IntLit(int64(len(a.E)))}
		case *PtrV:
			if a.Loc == nil {
				return &Prim{T: TZero}
			}
			if at, ok := a.Loc.Typ.Underlying().(*types.Array); ok {
				return &Prim{T: IntLit(at.Len())}
			}
		}
	case "cap":
		switch a := args[0].(type) {
		case *SliceV:
			return &Prim{T: a.Cap}
		}
	case "copy":
		return x.copyOp(st, args, pos)
	case "delete":
		m := args[0].(*MapV)
		x.mapDelete(st, m, args[1])
		return nil
	case "close":
		x.chanClose(st, args[0], pos)
		return nil
	case "recover":
		var res Value
		if st.panicking {
			st.panicking = false
			st.recovered = true
			res = st.panicVal
		} else if fr.ctx != nil && fr == fr.ctx.top {
			// the function under verification may be running as a deferred call of a panicking
			// caller: recover() yields an arbitrary value
			res = x.symbolic(st, types.NewInterfaceType(nil, nil), "recovered", false)
		} else {
			res = &IfaceV{Tag: TZero, Data: TZero}
		}
		st.calls = &callEntry{frame: fr.id, top: topID(fr), key: "builtin.recover", res: res, parent: st.calls}
		return res
	case "print", "println":
		return nil
	case "min", "max":
		res := args[0].(*Prim).T
		for _, a := range args[1:] {
			t := a.(*Prim).T
			if res.Sort == SInt {
				if b.Name() == "min" {
					res = app(SInt, "imin", res, t)
				} else {
					res = app(SInt, "imax", res, t)
				}
			} else {
				x.abort("float min/max builtin")
			}
		}
		return &Prim{T: res}
	case "ssa:wrapnilchk":
		return args[0]
	case "ssa:deferstack":
		return &Prim{T: TZero}
	}
	x.abort("builtin %s on %T", b.Name(), args[0])
	return nil
}

// appendCPS models append(s, t...): two paths, in place (len(s)+len(t) <= cap(s)) or reallocation.
func (x *Exec) appendCPS(fr *Frame, st *State, args []Value, c *ssa.CallCommon, pos token.Pos, k func(*State, Value)) {
	s, ok := args[0].(*SliceV)
	if !ok {
		if p, isnil := args[0].(*PtrV); isnil && p.Loc == nil {
			et := c.Args[0].Type().Underlying().(*types.Slice).Elem()
			s = &SliceV{TZero, TZero, TZero, TZero, et}
		} else {
			x.abort("append to %T", args[0])
		}
	}
	var t *SliceV
	switch w := args[1].(type) {
	case *SliceV:
		t = w
	case *PtrV:
		if w.Loc == nil {
			k(st, s)
			return
		}
		x.abort("append of %T", args[1])
	default:
		x.abort("append of %T", args[1])
	}
	et := s.Elem
	n := x.name(st, "applen", Add(s.Len, t.Len))
	// a slice is never longer than the largest int (running out of memory is not modelled)
	st.assume(Le(n, IntLit(9223372036854775807)))
	fits := Le(n, s.Cap)
	tlen, tconst := isIntLit(t.Len)
	st2 := st.clone()
	x.branch(func() {
		// in place
		st.assume(fits)
		for _, l := range leavesOf(et) {
			key, arr := x.heapLeaf(st, "A", et, l.Path, l.Sort)
			srow := Select(arr, s.Ptr)
			trow := Select(arr, t.Ptr)
			var inrow Term
			if tconst && tlen <= 4 {
				inrow = srow
				for j := int64(0); j < tlen; j++ {
					inrow = Store(inrow, Sidx(s.Off, Add(s.Len, IntLit(j))), Select(trow, Sidx(t.Off, IntLit(j))))
				}
			} else {
				inrow = x.freshConst(st, "inrow", ArrSort(l.Sort))
				j := "j!q"
				// element j of t lands at absolute index sidx(s.Off, s.Len+j)
				// the element landing at absolute index j is element j-(s.Off+s.Len) of t (bound variable = landing
				// index, so that a goal about an element of the result instantiates the clause)
				lo := Add(s.Off, s.Len)
				st.assume(Term{fmt.Sprintf("(forall ((%s Int)) (=> (and (>= %s 0) (< %s %s)) (= (select %s %s) (select %s %s))))",
					j, j, j, t.Len.S, inrow.S, Sidx(s.Off, Add(s.Len, Term{j, SInt})).S, trow.S, Sidx(t.Off, Term{j, SInt}).S), SBool})
				st.assume(Term{fmt.Sprintf("(forall ((%s Int)) (! (=> (and (>= %s %s) (< %s %s)) (= (select %s %s) (select %s (+ %s (- %s %s))))) :pattern ((select %s %s))))",
					j, j, lo.S, j, Add(s.Off, n).S, inrow.S, j, trow.S, t.Off.S, j, lo.S, inrow.S, j), SBool})
				st.assume(Term{fmt.Sprintf("(forall ((%s Int)) (=> (or (< %s %s) (>= %s %s)) (= (select %s %s) (select %s %s))))",
					j, j, Sidx(s.Off, s.Len).S, j, Sidx(s.Off, n).S, inrow.S, j, srow.S, j), SBool})
			}
			x.checkFrame(st, key, s.Ptr)
			x.recordWrite(st, key)
			x.setHeap(st, key, Store(arr, s.Ptr, inrow))
		}
		k(st, &SliceV{Ptr: s.Ptr, Off: s.Off, Len: n, Cap: s.Cap, Elem: et})
	}, func() {
		// reallocation: fresh backing array holding s's elements followed by t's
		st := st2
		st.assume(Not(fits))
		nr := x.newRef(st)
		ncap := x.freshConst(st, "newcap", SInt)
		st.assume(Ge(ncap, n))
		for _, l := range leavesOf(et) {
			key, arr := x.heapLeaf(st, "A", et, l.Path, l.Sort)
			srow := Select(arr, s.Ptr)
			trow := Select(arr, t.Ptr)
			base := x.freshConst(st, "newrow", ArrSort(l.Sort))
			j := "j!q"
			st.assume(Term{fmt.Sprintf("(forall ((%s Int)) (=> (and (>= %s 0) (< %s %s)) (= (select %s %s) (select %s %s))))",
				j, j, j, s.Len.S, base.S, j, srow.S, Sidx(s.Off, Term{j, SInt}).S), SBool})
			newrow := base
			if tconst && tlen <= 4 {
				for jj := int64(0); jj < tlen; jj++ {
					newrow = Store(newrow, Add(s.Len, IntLit(jj)), Select(trow, Sidx(t.Off, IntLit(jj))))
				}
			} else {
				newrow = x.freshConst(st, "newrow2", ArrSort(l.Sort))
				st.assume(Term{fmt.Sprintf("(forall ((%s Int)) (=> (and (>= %s 0) (< %s %s)) (= (select %s (+ %s %s)) (select %s %s))))",
					j, j, j, t.Len.S, newrow.S, s.Len.S, j, trow.S, Sidx(t.Off, Term{j, SInt}).S), SBool})
				st.assume(Term{fmt.Sprintf("(forall ((%s Int)) (! (=> (and (>= %s %s) (< %s %s)) (= (select %s %s) (select %s (+ %s (- %s %s))))) :pattern ((select %s %s))))",
					j, j, s.Len.S, j, n.S, newrow.S, j, trow.S, t.Off.S, j, s.Len.S, newrow.S, j), SBool})
				st.assume(Term{fmt.Sprintf("(forall ((%s Int)) (=> (and (>= %s 0) (< %s %s)) (= (select %s %s) (select %s %s))))",
					j, j, j, s.Len.S, newrow.S, j, base.S, j), SBool})
			}
			x.recordWrite(st, key)
			x.setHeap(st, key, Store(arr, nr, newrow))
		}
		k(st, &SliceV{Ptr: nr, Off: TZero, Len: n, Cap: ncap, Elem: et})
	})
}

func (x *Exec) copyOp(st *State, args []Value, pos token.Pos) Value {
	d, ok1 := args[0].(*SliceV)
	s, ok2 := args[1].(*SliceV)
	if !ok1 || !ok2 {
		x.abort("copy on %T,%T", args[0], args[1])
	}
	n := x.name(st, "copyn", app(SInt, "imin", d.Len, s.Len))
	for _, l := range leavesOf(d.Elem) {
		key, arr := x.heapLeaf(st, "A", d.Elem, l.Path, l.Sort)
		drow := Select(arr, d.Ptr)
		srow := Select(arr, s.Ptr)
		nrow := x.freshConst(st, "copyrow", ArrSort(l.Sort))
		j := "j!q"
		st.assume(Term{fmt.Sprintf("(forall ((%s Int)) (=> (and (>= %s 0) (< %s %s)) (= (select %s %s) (select %s %s))))",
			j, j, j, n.S, nrow.S, Sidx(d.Off, Term{j, SInt}).S, srow.S, Sidx(s.Off, Term{j, SInt}).S), SBool})
		st.assume(Term{fmt.Sprintf("(forall ((%s Int)) (=> (or (< %s %s) (>= %s %s)) (= (select %s %s) (select %s %s))))",
			j, j, d.Off.S, j, Sidx(d.Off, n).S, nrow.S, j, drow.S, j), SBool})
		x.checkFrame(st, key, d.Ptr)
		x.recordWrite(st, key)
		x.setHeap(st, key, Store(arr, d.Ptr, nrow))
	}
	return &Prim{T: n}
}

// mayWriteShared: the signature hands the callee a pointer to a sync/atomic object or to a struct
// declared in the engine's module.
func mayWriteShared(sig *types.Signature) bool {
	shared := func(t types.Type) bool {
		p, ok := t.Underlying().(*types.Pointer)
		if !ok {
			return false
		}
		n, ok := p.Elem().(*types.Named)
		if !ok || n.Obj().Pkg() == nil {
			return false
		}
		path := n.Obj().Pkg().Path()
		return path == "sync" || path == "sync/atomic" || strings.HasPrefix(path, "github.com/thanos-community/promql-engine")
	}
	if r := sig.Recv(); r != nil && shared(r.Type()) {
		return true
	}
	for i := 0; i < sig.Params().Len(); i++ {
		if shared(sig.Params().At(i).Type()) {
			return true
		}
	}
	return false
}

// topID: the frame of the function under verification that (transitively) inlined fr.
func topID(fr *Frame) int {
	if fr != nil && fr.ctx != nil && fr.ctx.top != nil {
		return fr.ctx.top.id
	}
	if fr != nil {
		return fr.id
	}
	return -1
}

// mentionsCallHistory: the expression uses callres(...) or ncalls(...).
func mentionsCallHistory(e ast.Expr) bool {
	found := false
	ast.Inspect(e, func(n ast.Node) bool {
		if c, ok := n.(*ast.CallExpr); ok {
			if id, ok := c.Fun.(*ast.Ident); ok && (id.Name == "callres" || id.Name == "ncalls") {
				found = true
			}
		}
		return !found
	})
	return found
}
