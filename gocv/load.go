package main

import (
	"fmt"
	"go/ast"
	"go/constant"
	"go/token"
	"go/types"
	"os"
	"sort"
	"strconv"
	"strings"

	"golang.org/x/tools/go/packages"
	"golang.org/x/tools/go/ssa"
	"golang.org/x/tools/go/ssa/ssautil"
)

const modulePrefix = "github.com/thanos-community/promql-engine/"

var debugHook func(p *Program)

type Program struct {
	repo     string
	pkgs     []*packages.Package
	prog     *ssa.Program
	spkgs    map[string]*ssa.Package // by path
	funcs    map[string]*ssa.Function
	cs       *ContractSet
	strCodes map[string]int64
	fset     *token.FileSet
	srcLines map[string][]string
	preludeS string
	postS    string
	smtFuncs map[string]smtSig
	mapFacts map[string]*globalMapFact
}

func qual(p *types.Package) string {
	if p == nil {
		return ""
	}
	path := p.Path()
	if strings.HasPrefix(path, modulePrefix) {
		return path[len(modulePrefix):]
	}
	return path
}

func funcKey(f *ssa.Function) string {
	if f == nil {
		return "<nil>"
	}
	if o := f.Origin(); o != nil && o != f {
		return funcKey(o)
	}
	if f.Parent() != nil {
		// closure: parentKey$N
		name := f.Name() // e.g. loadSeries$1
		pk := funcKey(f.Parent())
		if i := strings.LastIndex(name, "$"); i >= 0 {
			return pk + name[i:]
		}
		return pk + "$" + name
	}
	pkgq := ""
	if f.Pkg != nil {
		pkgq = qual(f.Pkg.Pkg)
	} else if o := f.Object(); o != nil && o.Pkg() != nil {
		pkgq = qual(o.Pkg())
	}
	if recv := f.Signature.Recv(); recv != nil {
		t := recv.Type()
		star := ""
		if p, ok := t.(*types.Pointer); ok {
			t = p.Elem()
			star = "*"
		}
		tn := ""
		if n, ok := t.(*types.Named); ok {
			tn = n.Obj().Name()
			if n.Obj().Pkg() != nil {
				pkgq = qual(n.Obj().Pkg())
			}
		} else {
			tn = t.String()
		}
		return fmt.Sprintf("%s.(%s%s).%s", pkgq, star, tn, f.Name())
	}
	return pkgq + "." + f.Name()
}

func loadProgram(repo, specDir string) (*Program, error) {
	cfg := &packages.Config{Mode: packages.LoadAllSyntax, Dir: repo, BuildFlags: []string{"-tags=verif"}, Env: append(os.Environ(), "GOFLAGS=-mod=mod", "GOPROXY=off", "GOSUMDB=off", "GOTOOLCHAIN=local")}
	pkgs, err := packages.Load(cfg, "./...")
	if err != nil {
		return nil, err
	}
	nerr := 0
	packages.Visit(pkgs, nil, func(p *packages.Package) {
		if strings.HasPrefix(p.PkgPath, modulePrefix) {
			for _, e := range p.Errors {
				fmt.Fprintln(os.Stderr, "load error:", e)
				nerr++
			}
		}
	})
	if nerr > 0 {
		return nil, fmt.Errorf("%d load errors in repository packages", nerr)
	}
	prog, spkgs := ssautil.AllPackages(pkgs, ssa.NaiveForm|ssa.GlobalDebug)
	p := &Program{repo: repo, pkgs: pkgs, prog: prog, spkgs: map[string]*ssa.Package{}, funcs: map[string]*ssa.Function{}, strCodes: map[string]int64{}, srcLines: map[string][]string{}}
	if len(pkgs) > 0 {
		p.fset = pkgs[0].Fset
	}
	for _, sp := range spkgs {
		if sp == nil {
			continue
		}
		if strings.HasPrefix(sp.Pkg.Path(), modulePrefix) {
			sp.Build()
		}
	}
	for _, sp := range prog.AllPackages() {
		p.spkgs[sp.Pkg.Path()] = sp
	}
	// index repo functions (incl. methods and closures)
	for fn := range ssautil.AllFunctions(prog) {
		if fn.Pkg == nil && fn.Parent() == nil {
			// synthetic wrappers etc.
		}
		p.funcs[funcKey(fn)] = fn
	}
	cs, err := loadContracts(repo, specDir)
	if err != nil {
		return nil, err
	}
	p.cs = cs
	p.collectStrings()
	p.preludeS = basePrelude
	p.postS = strings.Join(cs.SMT, "\n") + "\n"
	p.smtFuncs = parseSMTFuncs(cs.SMT)
	p.computeInitFacts()
	if debugHook != nil {
		debugHook(p)
	}
	return p, nil
}

func (p *Program) prelude() string     { return p.preludeS }
func (p *Program) postPrelude() string { return p.postS }

// postPreludeFor returns the spec prelude with its axioms (assert lines) restricted to those whose
// user-declared function symbols occur in the query body or in a kept definition. Dropping an
// axiom only weakens the hypotheses; it keeps unrelated quantified axioms out of every query.
func (p *Program) postPreludeFor(body string) string {
	var sb strings.Builder
	text := body
	// definitions first (they may be referenced by the body)
	var asserts []string
	for _, l := range p.cs.SMT {
		t := strings.TrimSpace(l)
		if strings.HasPrefix(t, "(assert") {
			asserts = append(asserts, l)
			continue
		}
		sb.WriteString(l)
		sb.WriteString("\n")
	}
	defs := sb.String()
	for _, a := range asserts {
		keep := false
		for _, m := range symRe.FindAllString(a, -1) {
			if _, declared := p.smtFuncs[m]; declared {
				if _, base := baseFuncs[m]; base {
					continue
				}
				if strings.Contains(text, "("+m+" ") || strings.Contains(text, " "+m+")") || strings.Contains(text, " "+m+" ") {
					keep = true
					break
				}
			}
		}
		if keep {
			sb.WriteString(a)
			sb.WriteString("\n")
		}
	}
	_ = defs
	return sb.String()
}

var baseFuncs = func() map[string]bool {
	m := map[string]bool{}
	for k := range parseSMTFuncs(nil) {
		m[k] = true
	}
	return m
}()

// collectStrings assigns order-preserving integer codes to all string constants of the repository
// packages and of the contracts. "" is 0; gaps leave room for other strings.
func (p *Program) collectStrings() {
	set := map[string]bool{"": true}
	for _, pk := range p.pkgs {
		if !strings.HasPrefix(pk.PkgPath, modulePrefix) {
			continue
		}
		for _, tv := range pk.TypesInfo.Types {
			if tv.Value != nil && tv.Value.Kind() == constant.String {
				set[constant.StringVal(tv.Value)] = true
			}
		}
	}
	// also constants of imported packages referenced from the repo (e.g. labels.MetricName)
	for _, pk := range p.pkgs {
		if !strings.HasPrefix(pk.PkgPath, modulePrefix) {
			continue
		}
		for _, obj := range pk.TypesInfo.Uses {
			if c, ok := obj.(*types.Const); ok && c.Val().Kind() == constant.String {
				set[constant.StringVal(c.Val())] = true
			}
		}
	}
	for _, s := range p.cs.Strings {
		set[s] = true
	}
	// function names of the PromQL parser table are needed as a vocabulary for C08
	var all []string
	for s := range set {
		all = append(all, s)
	}
	sort.Strings(all)
	for i, s := range all {
		p.strCodes[s] = int64(i) * 1000
	}
}

func (p *Program) registerString(s string) {
	if _, ok := p.strCodes[s]; ok {
		return
	}
	// late registration: place after all known codes while keeping "" least; order relative to other
	// literals is then not lexicographic, which is recorded as a limitation (only equality is safe).
	p.strCodes[s] = int64(len(p.strCodes))*1000 + 500
}

func (p *Program) sourceLine(pos token.Pos) string {
	if !pos.IsValid() || p.fset == nil {
		return ""
	}
	ps := p.fset.Position(pos)
	lines, ok := p.srcLines[ps.Filename]
	if !ok {
		data, err := os.ReadFile(ps.Filename)
		if err == nil {
			lines = strings.Split(string(data), "\n")
		}
		p.srcLines[ps.Filename] = lines
	}
	if ps.Line-1 < len(lines) && ps.Line >= 1 {
		return strings.Join(strings.Fields(lines[ps.Line-1]), " ")
	}
	return ""
}

func (p *Program) posString(pos token.Pos) string {
	if !pos.IsValid() || p.fset == nil {
		return ""
	}
	ps := p.fset.Position(pos)
	f := ps.Filename
	if strings.HasPrefix(f, p.repo+"/") {
		f = f[len(p.repo)+1:]
	}
	return f + ":" + strconv.Itoa(ps.Line)
}

// lookupType resolves a contract type string like "*execution/scan.vectorSelector".
func (p *Program) lookupType(s string) types.Type {
	ptr := false
	if strings.HasPrefix(s, "*") {
		ptr = true
		s = s[1:]
	}
	i := strings.LastIndex(s, ".")
	if i < 0 {
		return nil
	}
	pkgq, name := s[:i], s[i+1:]
	for _, sp := range p.prog.AllPackages() {
		if qual(sp.Pkg) == pkgq {
			if o := sp.Pkg.Scope().Lookup(name); o != nil {
				if ptr {
					return types.NewPointer(o.Type())
				}
				return o.Type()
			}
		}
	}
	return nil
}

// astFuncFor finds the syntax of a function (for loop ordering and local names).
func (p *Program) astFuncFor(fn *ssa.Function) ast.Node {
	return fn.Syntax()
}
