package main

// Contract files: `//@`-prefixed structured comments in /repo/**/zz_contracts_verif.go (build tag
// verif, comment-only) and assumed contracts for dependencies in /verif/specs/*.spec.
//
// Grammar (one item per block; a clause may continue on following lines that are indented deeper
// than the clause keyword):
//
//   func <key>                       key: name | (*T).name | (T).name | name$N (N-th closure)
//   extern <qualified key>(p1, p2, ...) r1, r2     assumed contract for a dependency / unverifiable function
//   interface <pkg.T>.<method>(recv, p1, ...) r1, r2
//   ghost <type> <name> <sort>       ghost model field on objects of <type> (sort: int|bool|float|seqint|seqfloat|seqbool)
//   smt <s-expression>               added to the SMT prelude (spec functions, axioms)
//   typeinv <type> <var>: expr       invariant assumed for every non-nil pointer of that type that is dereferenced
//   const <name> = <expr>
//
// clauses under func/extern/interface:
//   requires [label:] expr
//   ensures[C02,C07] [label:] expr
//   loop <n> invariant [label:] expr
//   assigns <leafspec>, ...          (T.f | T.* | elems(E) | global g | ghost g | nothing)
//   panics never|may
//   pure                             (extern: result is a function of the arguments, no heap effect)
//   trusted <reason>                 (repo function whose contract is assumed, e.g. channel protocol)
//   at <callee> [#n] assert[Cxx] [label:] expr      call-site assertion inside the function
//   inline                           (no contract: always inline at call sites)

import (
	"fmt"
	"go/ast"
	"go/parser"
	"os"
	"path/filepath"
	"regexp"
	"strconv"
	"strings"
)

type Clause struct {
	Kind  string // requires, ensures, invariant, assert
	Tags  []string
	Label string
	Src   string
	Expr  ast.Expr
	Loop  int    // invariant: loop ordinal
	At    string // assert: callee key
	AtN   int    // assert: occurrence (0 = all)
	AtLine string // assert: only call sites whose source line contains this text
	File  string
	Line  int
}

type Contract struct {
	Key      string
	Kind     string // func, extern, interface
	Params   []string
	Results  []string
	Requires []*Clause
	Ensures  []*Clause
	FrameTags []string // extra property tags of the frame obligations (assigns[Cnn] ...)
	Refines  string    // interface method whose (ghost-free) postconditions this function also proves
	ImplConv []string  // lines whose float->int conversion may be implementation-defined
	OnPanic  []*Clause // exceptional postconditions (checked where a panic escapes the function)
	Invs     []*Clause
	Asserts  []*Clause
	Assigns  []string
	HasAssigns bool
	LineHooks []*Clause // assertions / ghost assignments executed when control reaches a source line
	GhostVars []*GhostVar
	Sets      []*Clause // ghost assignments executed after a call: Clause.At callee, Label = variable
	MayFail  []string // source-line substrings: an implicit panic there is a path (recovered by a deferred call), not an obligation
	Panics   string
	PanicsUnless ast.Expr // with Panics == "may": no panic in call states where this holds
	PanicsUnlessSrc string
	Pure     bool
	Recovers bool // calls recover(): as a deferred call it stops a panic
	Returns  ast.Expr // pure extern: the result is this expression of the parameters
	Trusted  string
	Inline   bool
	File     string
	Line     int
}

type GhostVar struct {
	Name string
	Sort string // int | bool
	Init ast.Expr
}

type GhostField struct {
	Type string
	Name string
	Sort string
}

type TypeInv struct {
	Type string
	Var  string
	Expr ast.Expr
	Src  string
}

type Define struct {
	Type string // e.g. *scan.vectorSelector
	Var  string
	Name string
	Expr ast.Expr
}

type ContractSet struct {
	Aliases  map[string]string
	Funcs    map[string]*Contract
	Ghosts   map[string]*GhostField // by name
	SMT      []string
	TypeInvs map[string][]*TypeInv
	Consts   map[string]ast.Expr
	Defines  map[string]*Define // key: type + "." + name
	Strings  []string           // string literals occurring in contract expressions
	Assumes  []*Clause          // global assumptions (about package-level variables)
	Preds    map[string]*Pred   // parameterised macros
	BoxedNonNil []string        // package paths whose pointer types are never boxed as typed nils
}

type Pred struct {
	Name   string
	Params []string
	Expr   ast.Expr
}

func newContractSet() *ContractSet {
	return &ContractSet{Aliases: map[string]string{}, Funcs: map[string]*Contract{}, Ghosts: map[string]*GhostField{
		// built-in ghost state of channels (instr.go: chanSend / chanClose)
		"chclosed": {Type: "chan", Name: "chclosed", Sort: SBool},
		"chsent":   {Type: "chan", Name: "chsent", Sort: SInt},
	}, TypeInvs: map[string][]*TypeInv{}, Consts: map[string]ast.Expr{}, Defines: map[string]*Define{}, Preds: map[string]*Pred{}}
}

var keywordRe = regexp.MustCompile(`^(alias|assume|boxednonnil|pred|func|extern|interface|ghost|smt|typeinv|const|define|requires|ensures|onpanic|returns|recovers|mayfail|implconv|ghostvar|after|loop|assigns|panics|pure|trusted|refines|at|inline)\b`)

type rawLine struct {
	indent int
	text   string
	file   string
	line   int
}

func readContractLines(file string) ([]rawLine, error) {
	data, err := os.ReadFile(file)
	if err != nil {
		return nil, err
	}
	var out []rawLine
	isGo := strings.HasSuffix(file, ".go")
	for i, l := range strings.Split(string(data), "\n") {
		if isGo {
			t := strings.TrimLeft(l, " \t")
			if !strings.HasPrefix(t, "//@") {
				continue
			}
			l = t[3:]
		} else {
			if strings.HasPrefix(strings.TrimSpace(l), "#") {
				continue
			}
		}
		l = strings.ReplaceAll(l, "\t", "    ")
		trim := strings.TrimLeft(l, " ")
		if trim == "" || strings.HasPrefix(trim, "//") {
			continue
		}
		// strip trailing comments " // ..."
		if j := strings.Index(trim, " // "); j >= 0 {
			trim = strings.TrimRight(trim[:j], " ")
		}
		out = append(out, rawLine{indent: len(l) - len(strings.TrimLeft(l, " ")), text: strings.TrimRight(trim, " "), file: file, line: i + 1})
	}
	return out, nil
}

// expand replaces alias prefixes (`alias.`) by the package path they stand for.
var aliasRe = regexp.MustCompile(`([A-Za-z_][A-Za-z0-9_]*)\.`)

func (cs *ContractSet) expand(s string) string {
	var sb strings.Builder
	last := 0
	for _, loc := range aliasRe.FindAllStringIndex(s, -1) {
		m := s[loc[0]:loc[1]]
		sb.WriteString(s[last:loc[0]])
		last = loc[1]
		// an identifier that is the tail of a path (preceded by '/') is not an alias use
		if loc[0] > 0 && (s[loc[0]-1] == '/' || s[loc[0]-1] == '.') {
			sb.WriteString(m)
			continue
		}
		if p, ok := cs.Aliases[m[:len(m)-1]]; ok {
			sb.WriteString(p + ".")
		} else {
			sb.WriteString(m)
		}
	}
	sb.WriteString(s[last:])
	return sb.String()
}

func (cs *ContractSet) loadFile(file string, pkgPrefix string) error {
	lines, err := readContractLines(file)
	if err != nil {
		return err
	}
	// merge continuation lines
	var merged []rawLine
	for _, l := range lines {
		if len(merged) > 0 && !keywordRe.MatchString(l.text) {
			merged[len(merged)-1].text += " " + l.text
			continue
		}
		merged = append(merged, l)
	}
	var cur *Contract
	for _, l := range merged {
		kw := keywordRe.FindString(l.text)
		rest := strings.TrimSpace(l.text[len(kw):])
		fail := func(f string, a ...interface{}) error {
			return fmt.Errorf("%s:%d: %s", l.file, l.line, fmt.Sprintf(f, a...))
		}
		switch kw {
		case "alias":
			f := strings.Fields(rest)
			if len(f) != 2 {
				return fail("alias <name> <pkgpath>")
			}
			cs.Aliases[f[0]] = f[1]
		case "boxednonnil":
			cs.BoxedNonNil = append(cs.BoxedNonNil, cs.expand(rest+".")[:len(cs.expand(rest+"."))-1])
		case "pred":
			m := regexp.MustCompile(`^(\w+)\(([^)]*)\)\s*=\s*(.*)$`).FindStringSubmatch(rest)
			if m == nil {
				return fail("pred name(params) = expr")
			}
			e, err := cs.parseExpr(m[3])
			if err != nil {
				return fail("%v", err)
			}
			pd := &Pred{Name: m[1], Expr: e}
			for _, p := range strings.Split(m[2], ",") {
				if p = strings.TrimSpace(p); p != "" {
					pd.Params = append(pd.Params, p)
				}
			}
			cs.Preds[pd.Name] = pd
		case "assume":
			cl, err := cs.parseClause("assume", rest, l)
			if err != nil {
				return err
			}
			cs.Assumes = append(cs.Assumes, cl)
		case "func", "extern", "interface":
			c := &Contract{Kind: kw, File: l.file, Line: l.line}
			key := rest
			if kw != "func" {
				// key(params) results
				i := strings.LastIndex(rest, "(")
				// find the param list: last '(' that is not part of receiver
				j := strings.Index(rest[i:], ")")
				if i < 0 || j < 0 {
					return fail("bad %s header", kw)
				}
				key = strings.TrimSpace(rest[:i])
				ps := strings.TrimSpace(rest[i+1 : i+j])
				if ps != "" {
					for _, p := range strings.Split(ps, ",") {
						c.Params = append(c.Params, strings.TrimSpace(p))
					}
				}
				rs := strings.TrimSpace(rest[i+j+1:])
				if rs != "" {
					for _, r := range strings.Split(rs, ",") {
						c.Results = append(c.Results, strings.TrimSpace(r))
					}
				}
			}
			if kw == "func" && pkgPrefix != "" {
				key = pkgPrefix + "." + key
			} else {
				key = cs.expand(key)
			}
			c.Key = key
			if _, dup := cs.Funcs[key]; dup {
				return fail("duplicate contract for %s", key)
			}
			cs.Funcs[key] = c
			cur = c
		case "ghost":
			f := strings.Fields(rest)
			if len(f) != 3 {
				return fail("ghost <type> <name> <sort>")
			}
			cs.Ghosts[f[1]] = &GhostField{Type: cs.expand(f[0]), Name: f[1], Sort: ghostSort(f[2])}
		case "smt":
			cs.SMT = append(cs.SMT, rest)
		case "const":
			i := strings.Index(rest, "=")
			e, err := cs.parseExpr(strings.TrimSpace(rest[i+1:]))
			if err != nil {
				return fail("%v", err)
			}
			cs.Consts[strings.TrimSpace(rest[:i])] = e
		case "typeinv":
			i := strings.Index(rest, ":")
			f := strings.Fields(rest[:i])
			if len(f) != 2 {
				return fail("typeinv <type> <var>: expr")
			}
			e, err := cs.parseExpr(rest[i+1:])
			if err != nil {
				return fail("%v", err)
			}
			f[0] = cs.expand(f[0])
			cs.TypeInvs[f[0]] = append(cs.TypeInvs[f[0]], &TypeInv{Type: f[0], Var: f[1], Expr: e, Src: rest})
		case "define":
			// define (o *scan.vectorSelector).nextT = expr
			m := regexp.MustCompile(`^\((\w+) ([^)]+)\)\.(\w+)\s*=\s*(.*)$`).FindStringSubmatch(rest)
			if m == nil {
				return fail("define (v T).name = expr")
			}
			e, err := cs.parseExpr(m[4])
			if err != nil {
				return fail("%v", err)
			}
			m[2] = cs.expand(m[2])
			cs.Defines[m[2]+"."+m[3]] = &Define{Type: m[2], Var: m[1], Name: m[3], Expr: e}
		default:
			if cur == nil {
				return fail("clause outside a contract")
			}
			switch kw {
			case "requires", "ensures", "onpanic":
				cl, err := cs.parseClause(kw, rest, l)
				if err != nil {
					return err
				}
				switch kw {
				case "requires":
					cur.Requires = append(cur.Requires, cl)
				case "ensures":
					cur.Ensures = append(cur.Ensures, cl)
				default:
					// exceptional postcondition: holds when a panic leaves the function
					cur.OnPanic = append(cur.OnPanic, cl)
				}
			case "loop":
				m := regexp.MustCompile(`^(\d+)\s+invariant\b(.*)$`).FindStringSubmatch(rest)
				if m == nil {
					return fail("loop <n> invariant expr")
				}
				cl, err := cs.parseClause("invariant", strings.TrimSpace(m[2]), l)
				if err != nil {
					return err
				}
				cl.Loop, _ = strconv.Atoi(m[1])
				cur.Invs = append(cur.Invs, cl)
			case "at":
				if lm := regexp.MustCompile(`^line\s+"([^"]*)"\s+(assert|assume|set)\b(.*)$`).FindStringSubmatch(rest); lm != nil {
					if lm[2] == "assume" {
						cl, err := cs.parseClause("assume", strings.TrimSpace(lm[3]), l)
						if err != nil {
							return err
						}
						cl.AtLine = lm[1]
						cl.At = "@line"
						cur.LineHooks = append(cur.LineHooks, cl)
					} else if lm[2] == "assert" {
						cl, err := cs.parseClause("assert", strings.TrimSpace(lm[3]), l)
						if err != nil {
							return err
						}
						cl.AtLine = lm[1]
						cl.At = "@line"
						cur.LineHooks = append(cur.LineHooks, cl)
					} else {
						// set name = expr (ghost variable) | set base.ghostfield = expr (ghost field of an object)
						sm := regexp.MustCompile(`^\s*([\w.\[\]()*]+?)\s*=([^=].*)$`).FindStringSubmatch(lm[3])
						if sm == nil {
							return fail("at line \"text\" set name = expr")
						}
						e, err := cs.parseExpr(sm[2])
						if err != nil {
							return fail("%v", err)
						}
						cur.LineHooks = append(cur.LineHooks, &Clause{Kind: "set", At: "@line", AtLine: lm[1], Label: sm[1], Expr: e, Src: sm[2], File: l.file, Line: l.line})
					}
					break
				}
				m := regexp.MustCompile(`^(\S+)(?:\s+#(\d+))?(?:\s+line\s+"([^"]*)")?\s+assert\b(.*)$`).FindStringSubmatch(rest)
				if m == nil {
					return fail("at <callee> [#n] [line \"text\"] assert expr")
				}
				cl, err := cs.parseClause("assert", strings.TrimSpace(m[4]), l)
				if err != nil {
					return err
				}
				cl.At = cs.expand(m[1])
				if m[2] != "" {
					cl.AtN, _ = strconv.Atoi(m[2])
				}
				cl.AtLine = m[3]
				cur.Asserts = append(cur.Asserts, cl)
			case "assigns":
				cur.HasAssigns = true
				// assigns[C10,C16] ...: further properties the frame obligations count for
				if strings.HasPrefix(rest, "[") {
					if j := strings.Index(rest, "]"); j > 0 {
						for _, t := range strings.Split(rest[1:j], ",") {
							cur.FrameTags = append(cur.FrameTags, strings.TrimSpace(t))
						}
						rest = strings.TrimSpace(rest[j+1:])
					}
				}
				for _, a := range splitTop(rest, ",") {
					a = strings.TrimSpace(a)
					if a != "" && a != "nothing" {
						cur.Assigns = append(cur.Assigns, a)
					}
				}
			case "panics":
				// panics may [unless <expr>]: the callee may panic instead of returning, except in states
				// (at the call) where <expr> holds
				if i := strings.Index(rest, " unless "); i >= 0 {
					e, err := cs.parseExpr(rest[i+len(" unless "):])
					if err != nil {
						return fail("panics may unless: %v", err)
					}
					cur.PanicsUnless = e
					cur.PanicsUnlessSrc = rest[i+len(" unless "):]
					rest = strings.TrimSpace(rest[:i])
				}
				cur.Panics = rest
			case "pure":
				cur.Pure = true
			case "recovers":
				cur.Recovers = true
			case "ghostvar":
				// ghostvar name int = expr
				m := regexp.MustCompile(`^(\w+)\s+(int|bool|float|seqint|seqbool)\s*=\s*(.*)$`).FindStringSubmatch(rest)
				if m == nil {
					return fail("ghostvar name int|bool|float|seqint|seqbool = expr")
				}
				e, err := cs.parseExpr(m[3])
				if err != nil {
					return fail("%v", err)
				}
				cur.GhostVars = append(cur.GhostVars, &GhostVar{Name: m[1], Sort: m[2], Init: e})
			case "after":
				// after <callee> set name = expr
				m := regexp.MustCompile(`^(\S+)\s+set\s+(\w+)\s*=\s*(.*)$`).FindStringSubmatch(rest)
				if m == nil {
					return fail("after <callee> set name = expr")
				}
				e, err := cs.parseExpr(m[3])
				if err != nil {
					return fail("%v", err)
				}
				cur.Sets = append(cur.Sets, &Clause{Kind: "set", At: cs.expand(m[1]), Label: m[2], Expr: e, Src: m[3], File: l.file, Line: l.line})
			case "mayfail":
				m := regexp.MustCompile(`^line\s+"([^"]*)"`).FindStringSubmatch(rest)
				if m == nil {
					return fail("mayfail line \"text\"")
				}
				cur.MayFail = append(cur.MayFail, m[1])
			case "implconv":
				// implconv line "text": the float->int conversion on that line may be out of range; Go then
				// yields an implementation-defined value (never a panic): the result is left unconstrained.
				m := regexp.MustCompile(`^line\s+"([^"]*)"`).FindStringSubmatch(rest)
				if m == nil {
					return fail("implconv line \"text\"")
				}
				cur.ImplConv = append(cur.ImplConv, m[1])
			case "returns":
				e, err := cs.parseExpr(rest)
				if err != nil {
					return fail("%v", err)
				}
				cur.Pure = true
				cur.Returns = e
			case "refines":
				// refines <interface method key>: the implementation also proves the postconditions of
				// the interface contract that do not mention ghost model fields of the operator
				cur.Refines = cs.expand(strings.TrimSpace(rest))
			case "trusted":
				cur.Trusted = rest
				if rest == "" {
					cur.Trusted = "assumed"
				}
			case "inline":
				cur.Inline = true
			}
		}
	}
	return nil
}

func ghostSort(s string) string {
	switch s {
	case "int":
		return SInt
	case "bool":
		return SBool
	case "float":
		return SF64
	case "seqint":
		return SSeqI
	case "seqfloat":
		return SSeqF
	case "seqbool":
		return SSeqB
	}
	panic("unknown ghost sort " + s)
}

var tagRe = regexp.MustCompile(`^\[([A-Za-z0-9, ]+)\]`)
var labelRe = regexp.MustCompile(`^([A-Za-z][A-Za-z0-9_\-]*):\s`)

func (cs *ContractSet) parseClause(kind, rest string, l rawLine) (*Clause, error) {
	cl := &Clause{Kind: kind, File: l.file, Line: l.line}
	if m := tagRe.FindStringSubmatch(rest); m != nil {
		for _, t := range strings.Split(m[1], ",") {
			cl.Tags = append(cl.Tags, strings.TrimSpace(t))
		}
		rest = strings.TrimSpace(rest[len(m[0]):])
	}
	if m := labelRe.FindStringSubmatch(rest + " "); m != nil {
		cl.Label = m[1]
		rest = strings.TrimSpace(rest[len(m[1])+1:])
	}
	cl.Src = rest
	if cl.Label == "" {
		cl.Label = shortLabel(rest)
	}
	e, err := cs.parseExpr(rest)
	if err != nil {
		return nil, fmt.Errorf("%s:%d: %v (in %q)", l.file, l.line, err, rest)
	}
	cl.Expr = e
	return cl, nil
}

func shortLabel(s string) string {
	s = strings.Join(strings.Fields(s), "")
	if len(s) > 60 {
		s = s[:60]
	}
	return s
}

// parseExpr rewrites the extended syntax into plain Go and parses it.
//   A ==> B                      -> imp(A, B)              (lowest precedence, right associative)
//   A <==> B                     -> iff(A, B)
//   forall i in lo..hi :: P      -> forall(i, lo, hi, P)   (extends to the end of the enclosing parens)
//   exists i in lo..hi :: P      -> exists(i, lo, hi, P)
// $name refers to an argument of the callee in a call hook; a '$' that follows an identifier character is
// part of a closure name (simpleFunc$1) and is left alone.
var dollarRe = regexp.MustCompile(`(^|[^\w$])\$([A-Za-z_]\w*)`)

func (cs *ContractSet) parseExpr(s string) (ast.Expr, error) {
	g := rewriteExpr(strings.TrimSpace(s))
	g = dollarRe.ReplaceAllString(g, "${1}ARG_$2")
	e, err := parser.ParseExpr(g)
	if err != nil {
		return nil, fmt.Errorf("%v [rewritten: %s]", err, g)
	}
	ast.Inspect(e, func(n ast.Node) bool {
		if bl, ok := n.(*ast.BasicLit); ok && bl.Kind.String() == "STRING" {
			if v, err := strconv.Unquote(bl.Value); err == nil {
				cs.Strings = append(cs.Strings, v)
			}
		}
		return true
	})
	return e, nil
}

// splitTop splits s at top-level (paren/bracket depth 0, outside string literals) occurrences of sep.
func splitTop(s, sep string) []string {
	var parts []string
	depth := 0
	inStr := false
	last := 0
	for i := 0; i < len(s); i++ {
		c := s[i]
		if inStr {
			if c == '\\' {
				i++
			} else if c == '"' {
				inStr = false
			}
			continue
		}
		switch c {
		case '"':
			inStr = true
		case '(', '[', '{':
			depth++
		case ')', ']', '}':
			depth--
		}
		if depth == 0 && strings.HasPrefix(s[i:], sep) {
			// do not split "<==>" when looking for "==>"
			if sep == "==>" && i > 0 && s[i-1] == '<' {
				continue
			}
			parts = append(parts, s[last:i])
			last = i + len(sep)
			i += len(sep) - 1
		}
	}
	parts = append(parts, s[last:])
	return parts
}

var quantRe = regexp.MustCompile(`^(forall|exists)\s+(\w+)\s+in\s+`)
var quantAllRe = regexp.MustCompile(`^(forall|exists)\s+(\w+)\s*::`)

func rewriteExpr(s string) string {
	s = strings.TrimSpace(s)
	// quantifier prefix binds weakest
	if m := quantRe.FindStringSubmatch(s); m != nil {
		rest := s[len(m[0]):]
		parts := splitTop(rest, "::")
		if len(parts) >= 2 {
			rng := parts[0]
			body := strings.Join(parts[1:], "::")
			lohi := splitTop(rng, "..")
			if len(lohi) == 2 {
				return fmt.Sprintf("%s(%s, %s, %s, %s)", m[1], m[2], rewriteExpr(lohi[0]), rewriteExpr(lohi[1]), rewriteExpr(body))
			}
		}
	}
	if m := quantAllRe.FindStringSubmatch(s); m != nil {
		// unbounded quantifier: forall k :: P
		return fmt.Sprintf("%s(%s, ALL, ALL, %s)", m[1], m[2], rewriteExpr(s[len(m[0]):]))
	}
	if ps := splitTop(s, "<==>"); len(ps) == 2 {
		return fmt.Sprintf("iff(%s, %s)", rewriteExpr(ps[0]), rewriteExpr(ps[1]))
	}
	if ps := splitTop(s, "==>"); len(ps) >= 2 {
		return fmt.Sprintf("imp(%s, %s)", rewriteExpr(ps[0]), rewriteExpr(strings.Join(ps[1:], "==>")))
	}
	// descend into parenthesised / bracketed groups
	var sb strings.Builder
	inStr := false
	for i := 0; i < len(s); i++ {
		c := s[i]
		if inStr {
			sb.WriteByte(c)
			if c == '\\' && i+1 < len(s) {
				i++
				sb.WriteByte(s[i])
			} else if c == '"' {
				inStr = false
			}
			continue
		}
		if c == '"' {
			inStr = true
			sb.WriteByte(c)
			continue
		}
		if c == '(' || c == '[' {
			close := byte(')')
			if c == '[' {
				close = ']'
			}
			depth := 0
			j := i
			for ; j < len(s); j++ {
				if s[j] == c {
					depth++
				} else if s[j] == close {
					depth--
					if depth == 0 {
						break
					}
				}
			}
			if j >= len(s) {
				sb.WriteString(s[i:])
				return sb.String()
			}
			inner := s[i+1 : j]
			sb.WriteByte(c)
			// arguments separated by top-level commas are rewritten independently
			args := splitTop(inner, ",")
			for k, a := range args {
				if k > 0 {
					sb.WriteString(",")
				}
				sb.WriteString(rewriteExpr(a))
			}
			sb.WriteByte(close)
			i = j
			continue
		}
		sb.WriteByte(c)
	}
	return sb.String()
}

func loadContracts(repo string, specDir string) (*ContractSet, error) {
	cs := newContractSet()
	var files []string
	filepath.Walk(repo, func(p string, info os.FileInfo, err error) error {
		if err != nil {
			return nil
		}
		if info.IsDir() && (info.Name() == ".git" || info.Name() == "vendor") {
			return filepath.SkipDir
		}
		if !info.IsDir() && strings.HasSuffix(p, "_verif.go") {
			files = append(files, p)
		}
		return nil
	})
	specs, _ := filepath.Glob(filepath.Join(specDir, "*.spec"))
	files = append(specs, files...)
	for _, f := range files {
		prefix := ""
		if strings.HasSuffix(f, ".go") {
			rel, _ := filepath.Rel(repo, filepath.Dir(f))
			prefix = filepath.ToSlash(rel)
		}
		if err := cs.loadFile(f, prefix); err != nil {
			return nil, err
		}
	}
	// `panics may unless istype(x, *T)` on an interface method M is only accepted if T.M is under a verified
	// contract that does not itself declare `panics may`.
	for k, c := range cs.Funcs {
		if c.PanicsUnlessSrc == "" {
			continue
		}
		ms := regexp.MustCompile(`istype\(\w+,\s*\*([\w./]+)\)`).FindAllStringSubmatch(c.PanicsUnlessSrc, -1)
		if len(ms) == 0 {
			return nil, fmt.Errorf("%s:%d: panics may unless: only istype(recv, *T) conditions are supported", c.File, c.Line)
		}
		method := k[strings.LastIndex(k, ".")+1:]
		for _, m := range ms {
			t := cs.expand(m[1] + ".")
			t = strings.TrimSuffix(t, ".")
			i := strings.LastIndex(t, ".")
			impl := t[:i] + ".(*" + t[i+1:] + ")." + method
			ic := cs.Funcs[impl]
			if ic == nil || ic.Kind != "func" || ic.Trusted != "" || ic.Inline || ic.Panics == "may" {
				return nil, fmt.Errorf("%s:%d: panics may unless %s: %s is not verified without `panics may`", c.File, c.Line, c.PanicsUnlessSrc, impl)
			}
		}
	}
	// An inlined function is executed as part of its caller: only its loop invariants are used. Clauses that
	// would silently never be checked are rejected.
	for k, c := range cs.Funcs {
		if c.Inline && (len(c.LineHooks) > 0 || len(c.Asserts) > 0 || len(c.Sets) > 0 || len(c.Ensures) > 0 || len(c.Requires) > 0) {
			return nil, fmt.Errorf("%s:%d: contract of %s is marked inline: its requires/ensures/at-hooks would never be checked (put them on the enclosing function)", c.File, c.Line, k)
		}
	}
	return cs, nil
}
