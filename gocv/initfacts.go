package main

// Package-level maps initialised by literals (function.Funcs, binary.operations, ...): their
// contents are obtained by symbolically executing the package initialiser once. The facts are
// assumed at the entry of every verified function; they are sound as long as nothing writes those
// maps after initialisation (no function under contract has them in its frame).

import (
	"fmt"
	"go/types"
	"os"
	"sort"
	"strings"
	"time"

	"golang.org/x/tools/go/ssa"
)

type mapUpd struct {
	key Term
	val Value
}

type globalMapFact struct {
	global  string // qualified name
	mt      *types.Map
	entries []mapUpd
}

func (p *Program) computeInitFacts() {
	p.mapFacts = map[string]*globalMapFact{}
	var paths []string
	for path := range p.spkgs {
		if strings.HasPrefix(path, modulePrefix) {
			paths = append(paths, path)
		}
	}
	sort.Strings(paths)
	for _, path := range paths {
		sp := p.spkgs[path]
		initFn := sp.Func("init")
		if initFn == nil || len(initFn.Blocks) == 0 {
			continue
		}
		hasMap := false
		for _, mem := range sp.Members {
			if g, ok := mem.(*ssa.Global); ok {
				if _, ok := g.Type().(*types.Pointer).Elem().Underlying().(*types.Map); ok {
					hasMap = true
				}
			}
		}
		if !hasMap {
			continue
		}
		t0 := time.Now()
		defer func(path string) {
			if d := time.Since(t0); d > 2*time.Second {
				fmt.Fprintf(os.Stderr, "initfacts %s took %v\n", path, d)
			}
		}(path)
		x := newExec(p)
		x.initRecord = map[string][]mapUpd{}
		x.pathCap = 200
		var final *State
		func() {
			defer func() {
				if r := recover(); r != nil {
					if os.Getenv("GOCV_DEBUG") != "" {
						fmt.Fprintf(os.Stderr, "initfacts %s: %v\n", path, r)
					}
					if _, ok := r.(abortErr); ok {
						return
					}
					if _, ok := r.(pathEnd); ok {
						return
					}
					final = nil
				}
			}()
			st := &State{heap: map[string]Term{}, cells: map[int]*Cell{}}
			st.alloc = x.global("alloc@0", SInt)
			fc := &FuncCtx{fn: initFn, key: funcKey(initFn), contract: &Contract{Panics: "may"}, alloc0: st.alloc, allowed: map[string]bool{}}
			x.curFunc = fc
			fr := x.newFrame(initFn, nil)
			fr.ctx = fc
			fc.top = fr
			fc.entry = st.clone()
			fr.ret = func(st2 *State, _ []Value) {
				if final == nil {
					final = st2
				}
			}
			// the init guard is false on the first (only) run
			x.initMode = true
			x.run(fr, st, initFn.Blocks[0], nil, 0)
		}()
		if final == nil {
			continue
		}
		for name, mem := range sp.Members {
			g, ok := mem.(*ssa.Global)
			if !ok {
				continue
			}
			mt, ok := g.Type().(*types.Pointer).Elem().Underlying().(*types.Map)
			if !ok {
				continue
			}
			key := "V|" + globalKey(g) + "|"
			ref, ok := final.heap[key]
			if !ok {
				continue
			}
			// the stored ref may be a named constant; resolve through equalities is not needed:
			// updates were recorded under the same term string
			ups := x.initRecord[ref.S]
			if len(ups) == 0 {
				// try definitional alias
				for r, u := range x.initRecord {
					if x.aliasOf(final, ref.S) == r {
						ups = u
					}
				}
			}
			if len(ups) == 0 {
				continue
			}
			_ = name
			p.mapFacts[globalKey(g)] = &globalMapFact{global: globalKey(g), mt: mt, entries: ups}
		}
	}
}

// aliasOf follows `(= a b)` definitional equalities of the log to find what a names.
func (x *Exec) aliasOf(st *State, sym string) string {
	for n := st.log; n != nil; n = n.Parent {
		if n.Kind == KAssume {
			pre := "(= " + sym + " "
			if strings.HasPrefix(n.T.S, pre) {
				return strings.TrimSuffix(n.T.S[len(pre):], ")")
			}
		}
	}
	return sym
}

// assumeInitFacts states the contents of the initialised global maps in terms of the entry heap.
func (x *Exec) assumeInitFacts(st *State, fn *ssa.Function, ct *Contract) {
	used := map[string]bool{}
	var scan func(f *ssa.Function, depth int)
	seen := map[*ssa.Function]bool{}
	scan = func(f *ssa.Function, depth int) {
		if f == nil || seen[f] || depth > 3 {
			return
		}
		seen[f] = true
		for _, b := range f.Blocks {
			for _, ins := range b.Instrs {
				for _, op := range ins.Operands(nil) {
					if op == nil || *op == nil {
						continue
					}
					switch g := (*op).(type) {
					case *ssa.Global:
						used[globalKey(g)] = true
					case *ssa.Function:
						if x.prog.cs.Funcs[funcKey(g)] == nil {
							scan(g, depth+1)
						}
					}
				}
			}
		}
		for _, af := range f.AnonFuncs {
			scan(af, depth)
		}
	}
	scan(fn, 0)
	if ct != nil {
		txt := ""
		for _, cls := range [][]*Clause{ct.Requires, ct.Ensures, ct.Invs, ct.Asserts, ct.LineHooks} {
			for _, cl := range cls {
				txt += " " + cl.Src
			}
		}
		for n := range x.prog.mapFacts {
			short := n[strings.LastIndex(n, "/")+1:]
			if strings.Contains(txt, short) {
				used[n] = true
			}
		}
	}
	var names []string
	for n := range x.prog.mapFacts {
		if used[n] {
			names = append(names, n)
		}
	}
	sort.Strings(names)
	for _, n := range names {
		f := x.prog.mapFacts[n]
		gk := "V|" + f.global + "|"
		ref, ok := st.heap[gk]
		if !ok {
			ref = x.global(sanitize(gk)+"@0", SInt)
			st.heap[gk] = ref
		}
		m := &MapV{Ref: ref, Typ: f.mt}
		st.assume(Gt(ref, TZero))
		st.assume(Lt(ref, st.alloc))
		var inDom []Term
		seen := map[string]bool{}
		for _, e := range f.entries {
			if seen[e.key.S] {
				continue
			}
			seen[e.key.S] = true
			st.assume(x.mapHas(st, m, e.key))
			inDom = append(inDom, Term{fmt.Sprintf("(= k!q %s)", e.key.S), SBool})
			// value facts: function identity of closures
			if fv, ok := e.val.(*FuncV); ok && fv.Fn != nil {
				val := x.mapValue(st, m, e.key).(*FuncV)
				st.assume(Not(Eq(val.ID, TZero)))
				_, fnArr := x.ghostLeaf(st, "closfn", SInt)
				st.assume(Eq(Select(fnArr, val.ID), x.funcID(fv.Fn)))
				if len(fv.Bind) == 1 {
					if b, ok := fv.Bind[0].(*FuncV); ok && b.Fn != nil {
						_, bArr := x.ghostLeaf(st, "closbind0", SInt)
						st.assume(Eq(Select(bArr, val.ID), x.funcID(b.Fn)))
					}
				}
			}
		}
		_, dom := x.mapLeaf(st, f.mt, "dom", SBool)
		st.assume(Term{fmt.Sprintf("(forall ((k!q Int)) (=> (select (select %s %s) k!q) %s))", dom.S, ref.S, Or(inDom...).S), SBool})
	}
}

// resolveMapFunc resolves a contract key of the form  pkg.Map["key"]  to the closure stored there.
func (p *Program) resolveMapFunc(key string) (*ssa.Function, []Value) {
	i := strings.Index(key, "[\"")
	if i < 0 || !strings.HasSuffix(key, "\"]") {
		return nil, nil
	}
	g := key[:i]
	k := key[i+2 : len(key)-2]
	f := p.mapFacts[g]
	if f == nil {
		return nil, nil
	}
	code, ok := p.strCodes[k]
	if !ok {
		return nil, nil
	}
	for _, e := range f.entries {
		if n, lit := isIntLit(e.key); lit && n == code {
			if fv, ok := e.val.(*FuncV); ok && fv.Fn != nil {
				return fv.Fn, fv.Bind
			}
		}
	}
	return nil, nil
}
