package main

// Evaluator for contract expressions (Go expression syntax + imp/iff/forall/exists/old/...).

import (
	"os"
	"fmt"
	"go/ast"
	"go/constant"
	"go/token"
	"go/types"
	"math"
	"strconv"
	"strings"

	"golang.org/x/tools/go/ssa"
)

type Eval struct {
	x      *Exec
	fr     *Frame
	st     *State
	old    *State
	loop   *loopRun
	bind   map[string]Value
	bindT  map[string]types.Type
	callee bool
	hook   bool // line hook: identifiers are current values of locals
	inOld  bool
	// fresh(x) means "allocated at or after this frontier": the call-time frontier when a callee's
	// postcondition is assumed, the entry frontier of the function under verification otherwise
	freshBase *Term
	qn     int
	// definitional axioms of fresh symbols introduced by the expression (shiftseq): assumed by the
	// ghost assignment that evaluates it (expressions are otherwise evaluated without side effects)
	defs []Term
}

func (x *Exec) newEval(fr *Frame, st *State, run *loopRun) *Eval {
	ev := &Eval{x: x, fr: fr, st: st, loop: run, bind: map[string]Value{}, bindT: map[string]types.Type{}}
	if fr != nil && fr.ctx != nil {
		ev.old = fr.ctx.entry
	}
	return ev
}

func (ev *Eval) fail(f string, a ...interface{}) {
	ev.x.abort("contract expression: "+f, a...)
}

func (ev *Eval) boolExpr(e ast.Expr) Term {
	ev.st.quiet++
	defer func() { ev.st.quiet-- }()
	v := ev.eval(e)
	p, ok := v.(*Prim)
	if !ok || p.T.Sort != SBool {
		ev.fail("not a boolean: %s", exprString(e))
	}
	return p.T
}

func exprString(e ast.Expr) string {
	return types.ExprString(e)
}

func (ev *Eval) term(e ast.Expr) Term {
	v := ev.eval(e)
	switch w := v.(type) {
	case *UndefV:
		// a value that does not exist on this path (result of a call that did not happen): unconstrained
		return ev.x.global("undef@int", SInt)
	case *Prim:
		return w.T
	case *PtrV:
		if w.Loc == nil {
			return TZero
		}
		return ev.x.refOf(ev.st, w.Loc)
	case *MapV:
		return w.Ref
	case *FuncV:
		return w.ID
	}
	ev.fail("not a scalar: %s (%T)", exprString(e), v)
	return Term{}
}

func (ev *Eval) withState(st *State, inOld bool, f func() Value) Value {
	saved, so := ev.st, ev.inOld
	ev.st, ev.inOld = st, inOld
	st.quiet++
	defer func() { st.quiet--; ev.st, ev.inOld = saved, so }()
	return f()
}

func (ev *Eval) eval(e ast.Expr) Value {
	switch n := e.(type) {
	case *ast.ParenExpr:
		return ev.eval(n.X)
	case *ast.BasicLit:
		switch n.Kind {
		case token.INT:
			return &Prim{T: BigLit(n.Value)}
		case token.FLOAT:
			f, _ := strconv.ParseFloat(n.Value, 64)
			return &Prim{T: F64Bits(math.Float64bits(f))}
		case token.STRING:
			s, _ := strconv.Unquote(n.Value)
			ev.x.prog.registerString(s)
			return &Prim{T: ev.x.strCode(s)}
		}
	case *ast.Ident:
		return ev.ident(n.Name)
	case *ast.UnaryExpr:
		switch n.Op {
		case token.NOT:
			return &Prim{T: Not(ev.boolOf(n.X))}
		case token.SUB:
			t := ev.term(n.X)
			if t.Sort == SF64 {
				return &Prim{T: app(SF64, "f_neg", t)}
			}
			return &Prim{T: Sub(TZero, t)}
		case token.AND:
			// &x : only used as istype argument
		}
	case *ast.StarExpr:
		v := ev.eval(n.X)
		if p, ok := v.(*PtrV); ok && p.Loc != nil {
			return ev.x.load(ev.st, p.Loc)
		}
		ev.fail("deref of %T", v)
	case *ast.BinaryExpr:
		return ev.binary(n)
	case *ast.SelectorExpr:
		return ev.selector(n)
	case *ast.IndexExpr:
		return ev.index(n)
	case *ast.SliceExpr:
		return ev.sliceExpr(n)
	case *ast.CallExpr:
		return ev.callExpr(n)
	}
	ev.fail("unsupported expression %s (%T)", exprString(e), e)
	return nil
}

func (ev *Eval) boolOf(e ast.Expr) Term {
	v := ev.eval(e)
	if _, u := v.(*UndefV); u {
		return ev.x.global("undef@bool", SBool)
	}
	p, ok := v.(*Prim)
	if !ok || p.T.Sort != SBool {
		ev.fail("not a boolean: %s", exprString(e))
	}
	return p.T
}

func (ev *Eval) ident(name string) Value {
	switch name {
	case "nil":
		return &PtrV{Loc: nil}
	case "true":
		return &Prim{T: TTrue}
	case "false":
		return &Prim{T: TFalse}
	}
	if v, ok := ev.bind[name]; ok {
		return v
	}
	if !ev.callee && ev.fr != nil {
		// entry values of parameters in pre/postconditions and inside old()
		if (ev.loop == nil && !ev.hook) || ev.inOld {
			for _, p := range ev.fr.fn.Params {
				if p.Name() == name {
					return ev.fr.env[p]
				}
			}
			for _, p := range ev.fr.fn.FreeVars {
				if p.Name() == name {
					if pv, ok := ev.fr.env[p].(*PtrV); ok {
						return ev.x.load(ev.st, pv.Loc)
					}
				}
			}
		}
		// locals (current value). With several variables of the same name the one in scope at the
		// loop header wins (its allocation dominates the header); `rangeindex` is this loop's own.
		bestID := -1
		if ev.loop != nil && name == "rangeindex" {
			if a := rangeIndexAlloc(ev.loop.info.header); a != nil {
				if id, ok := ev.fr.cellOf[a]; ok {
					if _, live := ev.st.cells[id]; live {
						bestID = id
					}
				}
			}
		}
		if bestID < 0 && ev.loop != nil && ev.loop.frame == ev.fr {
			h := ev.loop.info.header
			for a, id := range ev.fr.cellOf {
				if a.Comment != name || id <= bestID {
					continue
				}
				if _, live := ev.st.cells[id]; !live {
					continue
				}
				if ev.fr.ctx != nil && ev.fr.ctx.ghost[name] == id {
					bestID = id
					continue
				}
				if a.Block() != nil && (a.Block() == h || a.Block().Dominates(h)) && !ev.loop.info.blocks[a.Block()] {
					bestID = id
				}
			}
		}
		if bestID < 0 {
			for a, id := range ev.fr.cellOf {
				if a.Comment == name && id > bestID {
					if _, live := ev.st.cells[id]; live {
						bestID = id
					}
				}
			}
		}
		if bestID >= 0 {
			c := ev.st.cells[bestID]
			return ev.x.load(ev.st, &Loc{Kind: LCell, CellID: bestID, Root: c.Typ, Typ: c.Typ})
		}
		for _, p := range ev.fr.fn.Params {
			if p.Name() == name {
				return ev.fr.env[p]
			}
		}
		for _, p := range ev.fr.fn.FreeVars {
			if p.Name() == name {
				if pv, ok := ev.fr.env[p].(*PtrV); ok {
					return ev.x.load(ev.st, pv.Loc)
				}
			}
		}
	}
	if !ev.callee && ev.fr != nil && strings.HasPrefix(name, "rangeindex") && len(name) > len("rangeindex") {
		// rangeindexN: the hidden index of range loop N of this function (for invariants of nested loops)
		if n, err := strconv.Atoi(name[len("rangeindex"):]); err == nil {
			for h, li := range ev.fr.loops {
				if li.ordinal != n {
					continue
				}
				if a := rangeIndexAlloc(h); a != nil {
					if id, ok := ev.fr.cellOf[a]; ok {
						if c, live := ev.st.cells[id]; live {
							return ev.x.load(ev.st, &Loc{Kind: LCell, CellID: id, Root: c.Typ, Typ: c.Typ})
						}
					}
				}
			}
			ev.fail("%s: loop %d is not a live range loop here", name, n)
		}
	}
	if !ev.callee && ev.fr != nil && ev.fr.ctx != nil {
		// ghost variables of the function under verification are visible from its inlined closures
		if id, ok := ev.fr.ctx.ghost[name]; ok {
			if c, live := ev.st.cells[id]; live {
				return ev.x.load(ev.st, &Loc{Kind: LCell, CellID: id, Root: c.Typ, Typ: c.Typ})
			}
		}
	}
	if c, ok := ev.x.prog.cs.Consts[name]; ok {
		return ev.eval(c)
	}
	// handles
	if strings.HasPrefix(name, "$") {
		ev.fail("unknown handle %s", name)
	}
	ev.fail("unknown identifier %s", name)
	return nil
}

func (ev *Eval) typeOfValue(v Value) types.Type {
	switch w := v.(type) {
	case *StructV:
		return w.Typ
	case *PtrV:
		if w.Loc != nil {
			return types.NewPointer(w.Loc.Typ)
		}
	case *ArrV:
		return w.Typ
	}
	return nil
}

func (ev *Eval) selector(n *ast.SelectorExpr) Value {
	// package-qualified constant?
	if id, ok := n.X.(*ast.Ident); ok {
		if _, bound := ev.bind[id.Name]; !bound {
			if v, ok := ev.pkgConst(id.Name, n.Sel.Name); ok {
				return v
			}
		}
	}
	base := ev.eval(n.X)
	if _, u := base.(*UndefV); u {
		return base
	}
	return ev.field(base, n.Sel.Name, exprString(n))
}

func (ev *Eval) pkgConst(pkgName, name string) (Value, bool) {
	path := pkgName
	if p, ok := ev.x.prog.cs.Aliases[pkgName]; ok {
		path = p
	}
	for _, sp := range ev.x.prog.prog.AllPackages() {
		if qual(sp.Pkg) == path || sp.Pkg.Name() == pkgName && ev.localIdentUnknown(pkgName) && qual(sp.Pkg) == path {
			o := sp.Pkg.Scope().Lookup(name)
			switch c := o.(type) {
			case *types.Const:
				return ev.x.constValue(ssa.NewConst(c.Val(), c.Type())), true
			case *types.Var:
				// package-level variable: load global
				t := c.Type()
				return ev.x.load(ev.st, &Loc{Kind: LGlobal, Global: qual(sp.Pkg) + "." + name, Root: t, Typ: t}), true
			}
		}
	}
	return nil, false
}

func (ev *Eval) localIdentUnknown(string) bool { return true }

func (ev *Eval) field(base Value, name string, src string) Value {
	x := ev.x
	if _, u := base.(*UndefV); u {
		return base
	}
	// ghost field?
	if g, ok := x.prog.cs.Ghosts[name]; ok {
		var ref Term
		switch w := base.(type) {
		case *PtrV:
			if w.Loc == nil {
				ev.fail("ghost field of nil: %s", src)
			}
			ref = x.refOf(ev.st, w.Loc)
		case *IfaceV:
			ref = w.Data
		case *Prim:
			ref = w.T
		case *SliceV:
			ref = w.Ptr
		case *MapV:
			ref = w.Ref
		default:
			ev.fail("ghost field %s on %T", name, base)
		}
		_, arr := x.ghostLeaf(ev.st, name, g.Sort)
		return &Prim{T: Select(arr, ref)}
	}
	switch w := base.(type) {
	case *PtrV:
		if w.Loc == nil {
			ev.fail("field of nil pointer: %s", src)
		}
		// defined model field?
		if d := ev.defineFor(types.NewPointer(w.Loc.Typ), name); d != nil {
			return ev.evalDefine(d, base)
		}
		path, ft := lookupField(w.Loc.Typ, name)
		if path == nil {
			ev.fail("no field %s in %s (%s)", name, w.Loc.Typ, src)
		}
		l := w.Loc
		t := w.Loc.Typ
		for _, i := range path {
			st := t.Underlying().(*types.Struct)
			t = st.Field(i).Type()
			if p, isPtr := t.Underlying().(*types.Pointer); isPtr && i != path[len(path)-1] {
				// embedded pointer: load and continue
				pv := x.load(ev.st, l.sub(i, t)).(*PtrV)
				l = pv.Loc
				t = p.Elem()
				continue
			}
			l = l.sub(i, t)
		}
		_ = ft
		return x.load(ev.st, l)
	case *StructV:
		path, _ := lookupField(w.Typ, name)
		if path == nil {
			ev.fail("no field %s in %s (%s)", name, w.Typ, src)
		}
		var v Value = w
		for _, i := range path {
			if pv, ok := v.(*PtrV); ok {
				v = x.load(ev.st, pv.Loc)
			}
			v = v.(*StructV).F[i]
		}
		return v
	case *IfaceV:
		switch name {
		case "tag":
			return &Prim{T: w.Tag}
		case "data":
			return &Prim{T: w.Data}
		}
	case *SliceV:
		switch name {
		case "ptr":
			return &Prim{T: w.Ptr}
		case "off":
			return &Prim{T: w.Off}
		}
	}
	ev.fail("cannot select %s on %T (%s)", name, base, src)
	return nil
}

func (ev *Eval) defineFor(t types.Type, name string) *Define {
	return ev.x.prog.cs.Defines[typeKey(t)+"."+name]
}

func (ev *Eval) evalDefine(d *Define, recv Value) Value {
	saved, had := ev.bind[d.Var]
	ev.bind[d.Var] = recv
	defer func() {
		if had {
			ev.bind[d.Var] = saved
		} else {
			delete(ev.bind, d.Var)
		}
	}()
	return ev.eval(d.Expr)
}

// lookupField finds a (possibly promoted) field by name; returns the index path.
func lookupField(t types.Type, name string) ([]int, types.Type) {
	if p, ok := t.Underlying().(*types.Pointer); ok {
		t = p.Elem()
	}
	obj, idx, _ := types.LookupFieldOrMethod(t, true, nil, name)
	if obj == nil {
		// unexported field from another package: search manually
		var rec func(t types.Type, depth int) ([]int, types.Type)
		rec = func(t types.Type, depth int) ([]int, types.Type) {
			st, ok := t.Underlying().(*types.Struct)
			if !ok || depth > 3 {
				return nil, nil
			}
			for i := 0; i < st.NumFields(); i++ {
				if st.Field(i).Name() == name {
					return []int{i}, st.Field(i).Type()
				}
			}
			for i := 0; i < st.NumFields(); i++ {
				if st.Field(i).Embedded() {
					ft := st.Field(i).Type()
					if p, ok := ft.Underlying().(*types.Pointer); ok {
						ft = p.Elem()
					}
					if p, ty := rec(ft, depth+1); p != nil {
						return append([]int{i}, p...), ty
					}
				}
			}
			return nil, nil
		}
		return rec(t, 0)
	}
	if v, ok := obj.(*types.Var); ok && v.IsField() {
		return idx, v.Type()
	}
	return nil, nil
}

func (ev *Eval) index(n *ast.IndexExpr) Value {
	base := ev.eval(n.X)
	switch w := base.(type) {
	case *UndefV:
		return w
	case *SliceV:
		i := ev.term(n.Index)
		return ev.x.loadObj(ev.st, "A", w.Elem, w.Ptr, Sidx(w.Off, i), "", w.Elem)
	case *Prim:
		if strings.HasPrefix(w.T.Sort, "(Array Int ") {
			return &Prim{T: Select(w.T, ev.term(n.Index))}
		}
	case *ArrV:
		i := ev.term(n.Index)
		if k, ok := isIntLit(i); ok && k >= 0 && k < int64(len(w.E)) {
			return w.E[k]
		}
		return ev.x.iteChain(ev.st, w, i)
	case *MapV:
		k := ev.term(n.Index)
		return ev.x.mapValue(ev.st, w, k)
	}
	ev.fail("cannot index %T in %s", base, exprString(n))
	return nil
}

func (ev *Eval) sliceExpr(n *ast.SliceExpr) Value {
	base, ok := ev.eval(n.X).(*SliceV)
	if !ok {
		ev.fail("slice expression on non-slice")
	}
	lo := TZero
	hi := base.Len
	if n.Low != nil {
		lo = ev.term(n.Low)
	}
	if n.High != nil {
		hi = ev.term(n.High)
	}
	return &SliceV{Ptr: base.Ptr, Off: SidxOff(base.Off, lo), Len: Sub(hi, lo), Cap: Sub(base.Cap, lo), Elem: base.Elem}
}

func litToFloat(t Term) (Term, bool) {
	if n, ok := isIntLit(t); ok {
		return F64Bits(math.Float64bits(float64(n))), true
	}
	return t, false
}

func (ev *Eval) binary(n *ast.BinaryExpr) Value {
	switch n.Op {
	case token.LAND:
		return &Prim{T: And(ev.boolOf(n.X), ev.boolOf(n.Y))}
	case token.LOR:
		return &Prim{T: Or(ev.boolOf(n.X), ev.boolOf(n.Y))}
	}
	a, b := ev.eval(n.X), ev.eval(n.Y)
	if _, u := a.(*UndefV); u {
		return &Prim{T: ev.x.global("undef@bool", SBool)}
	}
	if _, u := b.(*UndefV); u {
		return &Prim{T: ev.x.global("undef@bool", SBool)}
	}
	if n.Op == token.EQL || n.Op == token.NEQ {
		pa, oka := a.(*Prim)
		pb, okb := b.(*Prim)
		var e Term
		if oka && okb {
			l, r := pa.T, pb.T
			if l.Sort == SF64 && r.Sort == SInt {
				r, _ = litToFloat(r)
			}
			if r.Sort == SF64 && l.Sort == SInt {
				l, _ = litToFloat(l)
			}
			if l.Sort != r.Sort {
				ev.fail("sort mismatch in %s: %s vs %s", exprString(n), l.Sort, r.Sort)
			}
			// contracts compare floats by bit pattern with ==; use feq() for IEEE equality
			e = Eq(l, r)
		} else {
			e = ev.x.valuesEqual(ev.st, a, b, nil)
		}
		if n.Op == token.NEQ {
			e = Not(e)
		}
		return &Prim{T: e}
	}
	l, r := ev.scalar(a, n.X), ev.scalar(b, n.Y)
	if l.Sort == SF64 || r.Sort == SF64 {
		if l.Sort == SInt {
			l, _ = litToFloat(l)
		}
		if r.Sort == SInt {
			r, _ = litToFloat(r)
		}
		switch n.Op {
		case token.LSS:
			return &Prim{T: app(SBool, "f_lt", l, r)}
		case token.LEQ:
			return &Prim{T: app(SBool, "f_le", l, r)}
		case token.GTR:
			return &Prim{T: app(SBool, "f_lt", r, l)}
		case token.GEQ:
			return &Prim{T: app(SBool, "f_le", r, l)}
		case token.ADD:
			return &Prim{T: app(SF64, "f_add", l, r)}
		case token.SUB:
			return &Prim{T: app(SF64, "f_sub", l, r)}
		case token.MUL:
			return &Prim{T: app(SF64, "f_mul", l, r)}
		case token.QUO:
			return &Prim{T: app(SF64, "f_div", l, r)}
		}
	}
	switch n.Op {
	case token.ADD:
		return &Prim{T: Add(l, r)}
	case token.SUB:
		return &Prim{T: Sub(l, r)}
	case token.MUL:
		return &Prim{T: Mul(l, r)}
	case token.QUO:
		return &Prim{T: app(SInt, "go_div", l, r)}
	case token.REM:
		return &Prim{T: app(SInt, "go_mod", l, r)}
	case token.LSS:
		return &Prim{T: Lt(l, r)}
	case token.LEQ:
		return &Prim{T: Le(l, r)}
	case token.GTR:
		return &Prim{T: Gt(l, r)}
	case token.GEQ:
		return &Prim{T: Ge(l, r)}
	}
	ev.fail("unsupported operator %s", n.Op)
	return nil
}

func (ev *Eval) scalar(v Value, e ast.Expr) Term {
	switch w := v.(type) {
	case *Prim:
		return w.T
	case *PtrV:
		if w.Loc == nil {
			return TZero
		}
		return ev.x.refOf(ev.st, w.Loc)
	case *MapV:
		return w.Ref
	case *FuncV:
		return w.ID
	}
	ev.fail("not a scalar: %s (%T)", exprString(e), v)
	return Term{}
}

func (ev *Eval) quant(kind string, args []ast.Expr) Value {
	if len(args) != 4 {
		ev.fail("%s(i, lo, hi, body)", kind)
	}
	id, ok := args[0].(*ast.Ident)
	if !ok {
		ev.fail("%s: bound variable expected", kind)
	}
	unbounded := false
	if li, ok := args[1].(*ast.Ident); ok && li.Name == "ALL" {
		unbounded = true
	}
	var lo, hi Term
	if !unbounded {
		lo, hi = ev.term(args[1]), ev.term(args[2])
	}
	ev.qn++
	ev.x.fresh++
	qv := Term{fmt.Sprintf("%s!q%d", id.Name, ev.x.fresh), SInt}
	saved, had := ev.bind[id.Name]
	ev.bind[id.Name] = &Prim{T: qv}
	body := ev.boolOf(args[3])
	if had {
		ev.bind[id.Name] = saved
	} else {
		delete(ev.bind, id.Name)
	}
	rng := TTrue
	if !unbounded {
		rng = And(Le(lo, qv), Lt(qv, hi))
	}
	if kind == "forall" && body.S == "true" {
		return &Prim{T: TTrue}
	}
	if kind == "forall" {
		// forall distributes over conjunction: smaller quantified formulas are easier to instantiate
		if strings.HasPrefix(body.S, "(and ") {
			var parts []Term
			for _, c := range sexprTop(body.S)[1:] {
				parts = append(parts, Term{fmt.Sprintf("(forall ((%s Int)) %s)", qv.S, Imp(rng, Term{c, SBool}).S), SBool})
			}
			return &Prim{T: And(parts...)}
		}
		return &Prim{T: Term{fmt.Sprintf("(forall ((%s Int)) %s)", qv.S, Imp(rng, body).S), SBool}}
	}
	return &Prim{T: Term{fmt.Sprintf("(exists ((%s Int)) %s)", qv.S, And(rng, body).S), SBool}}
}

func (ev *Eval) callExpr(n *ast.CallExpr) Value {
	name := ""
	switch f := n.Fun.(type) {
	case *ast.Ident:
		name = f.Name
	case *ast.SelectorExpr:
		name = exprString(f)
	default:
		ev.fail("unsupported call %s", exprString(n))
	}
	x := ev.x
	switch name {
	case "imp":
		return &Prim{T: Imp(ev.boolOf(n.Args[0]), ev.boolOf(n.Args[1]))}
	case "iff":
		return &Prim{T: Eq(ev.boolOf(n.Args[0]), ev.boolOf(n.Args[1]))}
	case "ite":
		c := ev.boolOf(n.Args[0])
		for _, arg := range n.Args[1:] {
			if _, u := ev.eval(arg).(*UndefV); u {
				return &UndefV{}
			}
		}
		a, b := ev.term(n.Args[1]), ev.term(n.Args[2])
		if a.Sort == SF64 && b.Sort == SInt {
			b, _ = litToFloat(b)
		}
		if b.Sort == SF64 && a.Sort == SInt {
			a, _ = litToFloat(a)
		}
		return &Prim{T: Ite(c, a, b)}
	case "forall", "exists":
		return ev.quant(name, n.Args)
	case "old":
		if ev.old == nil {
			ev.fail("old() outside a function context")
		}
		return ev.withState(ev.old, true, func() Value { return ev.eval(n.Args[0]) })
	case "atloop":
		if ev.loop == nil {
			ev.fail("atloop() outside a loop invariant")
		}
		return ev.withState(ev.loop.pre, false, func() Value { return ev.eval(n.Args[0]) })
	case "len":
		switch w := ev.eval(n.Args[0]).(type) {
		case *UndefV:
			return w
		case *SliceV:
			return &Prim{T: w.Len}
		case *Prim:
			return &Prim{T: app(SInt, "str_len", w.T)}
		case *ArrV:
			return &Prim{T: IntLit(int64(len(w.E)))}
		case *MapV:
			_, arr := x.mapLeaf(ev.st, w.Typ, "len", SInt)
			return &Prim{T: Select(arr, w.Ref)}
		}
		ev.fail("len of non-slice in %s", exprString(n))
	case "cap":
		if w, ok := ev.eval(n.Args[0]).(*SliceV); ok {
			return &Prim{T: w.Cap}
		}
		ev.fail("cap of non-slice")
	case "int", "int64", "int32", "uint64", "uint32", "uint", "uint8", "int8", "int16", "uint16":
		t := ev.term(n.Args[0])
		if t.Sort == SF64 {
			return &Prim{T: app(SInt, "f_to_int", t)}
		}
		return &Prim{T: t}
	case "float64":
		t := ev.term(n.Args[0])
		if t.Sort == SF64 {
			return &Prim{T: t}
		}
		if ft, ok := litToFloat(t); ok {
			return &Prim{T: ft}
		}
		return &Prim{T: app(SF64, "f_of_int", t)}
	case "store":
		a := ev.term(n.Args[0])
		i := ev.term(n.Args[1])
		v := ev.term(n.Args[2])
		return &Prim{T: Store(a, i, v)}
	case "constseq":
		v := ev.term(n.Args[0])
		return &Prim{T: ConstArr(v.Sort, v)}
	case "shiftseq":
		// shiftseq(a, k): the sequence b with b[i] == a[i+k] (only in ghost assignments)
		a := ev.term(n.Args[0])
		k := ev.term(n.Args[1])
		ev.x.fresh++
		b := Term{fmt.Sprintf("shiftseq!%d", ev.x.fresh), a.Sort}
		ev.st.push(&LogNode{Kind: KDecl, Name: b.S, Sort: a.Sort})
		ev.defs = append(ev.defs, Term{fmt.Sprintf("(forall ((i!s Int)) (! (= (select %s i!s) (select %s (+ i!s %s))) :pattern ((select %s i!s))))", b.S, a.S, k.S, b.S), SBool})
		return &Prim{T: b}
	case "nan":
		return &Prim{T: F64Bits(0x7FF8000000000001)}
	case "inf":
		if s, _ := isIntLit(ev.term(n.Args[0])); s < 0 {
			return &Prim{T: F64Bits(0xFFF0000000000000)}
		}
		return &Prim{T: F64Bits(0x7FF0000000000000)}
	case "isnan":
		return &Prim{T: app(SBool, "f_isnan", ev.fterm(n.Args[0]))}
	case "isinf":
		return &Prim{T: app(SBool, "f_isinf", ev.fterm(n.Args[0]))}
	case "isstale":
		return &Prim{T: app(SBool, "f_isstale", ev.fterm(n.Args[0]))}
	case "feq":
		return &Prim{T: app(SBool, "f_eq", ev.fterm(n.Args[0]), ev.fterm(n.Args[1]))}
	case "fresh", "callerfresh":
		// callerfresh: allocated since the function under verification was entered, also when
		// used inside a callee's contract (where fresh means "allocated by the callee")
		fc := &FuncCtx{alloc0: x.curFunc.alloc0}
		if ev.freshBase != nil && name == "fresh" {
			fc.alloc0 = *ev.freshBase
		}
		var cs []Term
		for _, a := range n.Args {
			switch w := ev.eval(a).(type) {
			case *SliceV:
				cs = append(cs, Or(Ge(w.Ptr, fc.alloc0), Eq(w.Ptr, TZero)))
			case *PtrV:
				if w.Loc == nil {
					ev.fail("fresh(nil)")
				}
				if w.Loc.Kind == LCell && len(w.Loc.Path) == 0 {
					if c := ev.st.cells[w.Loc.CellID]; c != nil && !c.Mat {
						// an allocation of this very execution that has not escaped yet
						continue
					}
				}
				cs = append(cs, Ge(x.refOf(ev.st, w.Loc), fc.alloc0))
			case *IfaceV:
				cs = append(cs, Ge(w.Data, fc.alloc0))
			case *MapV:
				cs = append(cs, Ge(w.Ref, fc.alloc0))
			default:
				ev.fail("fresh of %T", w)
			}
		}
		return &Prim{T: And(cs...)}
	case "allocated":
		// allocated(x): x was allocated before the current point (ref < frontier)
		switch w := ev.eval(n.Args[0]).(type) {
		case *SliceV:
			return &Prim{T: Lt(w.Ptr, ev.st.alloc)}
		case *PtrV:
			return &Prim{T: Lt(x.refOf(ev.st, w.Loc), ev.st.alloc)}
		case *IfaceV:
			return &Prim{T: Lt(w.Data, ev.st.alloc)}
		}
	case "within":
		// within(p, x): pointer p points to (a field of) the object x, or to an element of the slice x
		pv, okp := ev.eval(n.Args[0]).(*PtrV)
		if !okp || pv.Loc == nil {
			ev.fail("within(p, x): p is not a pointer")
		}
		var base Term
		if pv.Loc.Kind == LObj || pv.Loc.Kind == LElem {
			base = pv.Loc.Ref
		} else {
			base = x.refOf(ev.st, pv.Loc)
		}
		switch w := ev.eval(n.Args[1]).(type) {
		case *SliceV:
			return &Prim{T: And(BoolLit(pv.Loc.Kind == LElem), Eq(base, w.Ptr))}
		case *PtrV:
			if w.Loc == nil {
				return &Prim{T: TFalse}
			}
			return &Prim{T: And(BoolLit(pv.Loc.Kind != LElem), Eq(base, x.refOf(ev.st, w.Loc)))}
		case *IfaceV:
			return &Prim{T: And(BoolLit(pv.Loc.Kind != LElem), Eq(base, w.Data))}
		}
		ev.fail("within(p, x): unsupported container")
	case "preexisting":
		// preexisting(x): x existed when the function under verification was entered
		fc := x.curFunc
		switch w := ev.eval(n.Args[0]).(type) {
		case *SliceV:
			return &Prim{T: Lt(w.Ptr, fc.alloc0)}
		case *PtrV:
			if w.Loc != nil && (len(w.Loc.Path) > 0 || w.Loc.Kind == LElem) && (w.Loc.Kind == LObj || w.Loc.Kind == LElem) {
				// pointer into an object / array: the object existed
				return &Prim{T: Lt(w.Loc.Ref, fc.alloc0)}
			}
			return &Prim{T: Lt(x.refOf(ev.st, w.Loc), fc.alloc0)}
		case *IfaceV:
			return &Prim{T: Lt(w.Data, fc.alloc0)}
		}
	case "istype":
		iv, ok := ev.eval(n.Args[0]).(*IfaceV)
		if !ok {
			ev.fail("istype on non-interface")
		}
		ts := x.prog.cs.expand(strings.ReplaceAll(exprString(n.Args[1]), " ", ""))
		t := x.prog.lookupType(ts)
		if t == nil {
			ev.fail("istype: unknown type %s", ts)
		}
		return &Prim{T: Eq(iv.Tag, x.typeTag(t))}
	case "cast":
		// cast(x, *T): the pointer payload of interface value x viewed as *T
		iv, ok := ev.eval(n.Args[0]).(*IfaceV)
		if !ok {
			ev.fail("cast on non-interface")
		}
		ts := x.prog.cs.expand(strings.ReplaceAll(exprString(n.Args[1]), " ", ""))
		t := x.prog.lookupType(ts)
		if t == nil {
			ev.fail("cast: unknown type %s", ts)
		}
		pt, isPtr := t.(*types.Pointer)
		if !isPtr {
			return x.unbox(ev.st, iv.Data, t)
		}
		return &PtrV{Loc: &Loc{Kind: LObj, Ref: iv.Data, Root: pt.Elem(), Typ: pt.Elem()}, Elem: pt.Elem()}
	case "sameslice":
		va, vb := ev.eval(n.Args[0]), ev.eval(n.Args[1])
		if _, u := va.(*UndefV); u {
			return &UndefV{}
		}
		if _, u := vb.(*UndefV); u {
			return &UndefV{}
		}
		a, ok1 := va.(*SliceV)
		b, ok2 := vb.(*SliceV)
		if !ok1 || !ok2 {
			ev.fail("sameslice on non-slices")
		}
		return &Prim{T: And(Eq(a.Ptr, b.Ptr), Eq(a.Off, b.Off), Eq(a.Len, b.Len))}
	case "isnil":
		v := ev.eval(n.Args[0])
		return &Prim{T: x.valuesEqual(ev.st, v, &PtrV{Loc: nil}, nil)}
	case "ref":
		// ref(x): the heap reference of a pointer / interface payload / slice backing array
		switch w := ev.eval(n.Args[0]).(type) {
		case *SliceV:
			return &Prim{T: w.Ptr}
		case *PtrV:
			if w.Loc == nil {
				return &Prim{T: TZero}
			}
			return &Prim{T: x.refOf(ev.st, w.Loc)}
		case *IfaceV:
			return &Prim{T: w.Data}
		case *MapV:
			return &Prim{T: w.Ref}
		case *FuncV:
			return &Prim{T: w.ID}
		}
	case "has":
		m, ok := ev.eval(n.Args[0]).(*MapV)
		if !ok {
			ev.fail("has(map, key)")
		}
		return &Prim{T: And(Not(Eq(m.Ref, TZero)), x.mapHas(ev.st, m, ev.term(n.Args[1])))}
	case "callres":
		// callres("callee key", n [, i]): i-th result of the n-th call of callee on this path
		s, _ := strconv.Unquote(exprString(n.Args[0]))
		key := x.prog.cs.expand(s)
		nn, _ := isIntLit(ev.term(n.Args[1]))
		res, okc := ev.st.callResult(ev.fr.id, key, int(nn))
		if !okc || res == nil {
			// no such call on this path: an unconstrained value (only usable under a false guard)
			return &UndefV{}
		}
		if len(n.Args) == 3 {
			i, _ := isIntLit(ev.term(n.Args[2]))
			return res.(*TupleV).E[i]
		}
		return res
	case "closed", "sent":
		// closed(ch): the channel has been closed; sent(ch): number of sends on it so far (ghost state)
		ref := x.chanRef(ev.eval(n.Args[0]))
		if name == "closed" {
			_, arr := x.ghostLeaf(ev.st, "chclosed", SBool)
			return &Prim{T: Select(arr, ref)}
		}
		_, arr := x.ghostLeaf(ev.st, "chsent", SInt)
		return &Prim{T: Select(arr, ref)}
	case "ncalls":
		s, _ := strconv.Unquote(exprString(n.Args[0]))
		key := x.prog.cs.expand(s)
		if os.Getenv("GOCV_DEBUGCALLS") == "1" {
			fmt.Fprintf(os.Stderr, "ncalls key=%q frame=%d:", key, ev.fr.id)
			for c := ev.st.calls; c != nil; c = c.parent {
				fmt.Fprintf(os.Stderr, " [%s f=%d top=%d]", c.key, c.frame, c.top)
			}
			fmt.Fprintln(os.Stderr)
		}
		return &Prim{T: IntLit(int64(ev.st.callCount(ev.fr.id, key)))}
	case "funcid":
		// funcid("pkg.(*T).name$1") : identity of a function / closure
		s, _ := strconv.Unquote(exprString(n.Args[0]))
		k := x.prog.cs.expand(s)
		fn := x.prog.funcs[k]
		if fn == nil {
			ev.fail("funcid: unknown function %s", k)
		}
		return &Prim{T: x.funcID(fn)}
	}
	if pd, ok := x.prog.cs.Preds[name]; ok {
		if len(pd.Params) != len(n.Args) {
			ev.fail("pred %s expects %d arguments", name, len(pd.Params))
		}
		vals := make([]Value, len(n.Args))
		for i, a := range n.Args {
			vals[i] = ev.eval(a)
		}
		saved := map[string]Value{}
		had := map[string]bool{}
		for i, p := range pd.Params {
			saved[p], had[p] = ev.bind[p]
			ev.bind[p] = vals[i]
		}
		res := ev.eval(pd.Expr)
		for _, p := range pd.Params {
			if had[p] {
				ev.bind[p] = saved[p]
			} else {
				delete(ev.bind, p)
			}
		}
		return res
	}
	if sel, ok := n.Fun.(*ast.SelectorExpr); ok {
		if v, ok := ev.methodCall(sel, n.Args); ok {
			return v
		}
	}
	// SMT-level function from the prelude
	if sig, ok := x.prog.smtFuncs[name]; ok {
		var args []Term
		for i, a := range n.Args {
			t := ev.term(a)
			if i < len(sig.args) && sig.args[i] == SF64 && t.Sort == SInt {
				t, _ = litToFloat(t)
			}
			args = append(args, t)
		}
		if len(args) != len(sig.args) {
			ev.fail("%s expects %d arguments", name, len(sig.args))
		}
		if len(args) == 0 {
			return &Prim{T: Term{name, sig.res}}
		}
		return &Prim{T: app(sig.res, name, args...)}
	}
	ev.fail("unknown function %s in %s", name, exprString(n))
	return nil
}

func (ev *Eval) fterm(e ast.Expr) Term {
	t := ev.term(e)
	if t.Sort == SInt {
		t, _ = litToFloat(t)
	}
	return t
}

var _ = constant.MakeBool

// methodCall evaluates recv.Method(args) for methods that have a `pure` extern contract: the result
// is the same uninterpreted function application the executor uses at real call sites.
func (ev *Eval) methodCall(sel *ast.SelectorExpr, argExprs []ast.Expr) (Value, bool) {
	if id, ok := sel.X.(*ast.Ident); ok {
		if _, bound := ev.bind[id.Name]; !bound {
			if _, isAlias := ev.x.prog.cs.Aliases[id.Name]; isAlias {
				return nil, false
			}
		}
	}
	recv := ev.eval(sel.X)
	var rt types.Type
	switch w := recv.(type) {
	case *Prim:
		rt = w.Typ
	case *StructV:
		rt = w.Typ
	case *PtrV:
		if w.Loc != nil {
			rt = types.NewPointer(w.Loc.Typ)
		}
	case *SliceV:
		// a named slice type (labels.Labels): found by element type and method name
		rt = ev.x.prog.namedSliceWithMethod(w.Elem, sel.Sel.Name)
	case *IfaceV:
		if w.Typ != nil && types.IsInterface(w.Typ) {
			// interface method: pure interface contract
			key := typeKey(w.Typ) + "." + sel.Sel.Name
			ct := ev.x.prog.cs.Funcs[key]
			obj, _, _ := types.LookupFieldOrMethod(w.Typ, true, nil, sel.Sel.Name)
			f, isF := obj.(*types.Func)
			if ct == nil || !ct.Pure || !isF {
				ev.fail("interface method %s used in a contract expression needs a `pure` interface contract", key)
			}
			args := []Value{recv}
			for _, a := range argExprs {
				args = append(args, ev.eval(a))
			}
			res := ev.x.pureResults(ev.st, key, f.Type().(*types.Signature), args)
			return res[0], true
		}
	}
	if rt == nil {
		ev.fail("method call %s: receiver type unknown", exprString(sel))
	}
	obj, _, _ := types.LookupFieldOrMethod(rt, true, nil, sel.Sel.Name)
	f, ok := obj.(*types.Func)
	if !ok {
		// unexported or pointer-receiver method: try the method set of *T
		obj, _, _ = types.LookupFieldOrMethod(types.NewPointer(rt), true, nil, sel.Sel.Name)
		f, ok = obj.(*types.Func)
		if !ok {
			ev.fail("no method %s on %s", sel.Sel.Name, rt)
		}
	}
	fn := ev.x.prog.prog.FuncValue(f)
	if fn == nil {
		ev.fail("method %s has no SSA function", f.FullName())
	}
	key := funcKey(fn)
	ct := ev.x.prog.cs.Funcs[key]
	if ct == nil || !ct.Pure {
		ev.fail("method %s used in a contract expression needs a `pure` extern contract", key)
	}
	args := []Value{recv}
	for _, a := range argExprs {
		args = append(args, ev.eval(a))
	}
	res := ev.x.pureResults(ev.st, key, fn.Signature, args)
	if len(res) != 1 {
		ev.fail("method %s: exactly one result expected", key)
	}
	return res[0], true
}

// namedSliceWithMethod finds the named slice type with the given element type that has the method.
func (p *Program) namedSliceWithMethod(elem types.Type, method string) types.Type {
	for _, sp := range p.prog.AllPackages() {
		for _, m := range sp.Members {
			t, ok := m.(*ssa.Type)
			if !ok {
				continue
			}
			sl, ok := t.Type().Underlying().(*types.Slice)
			if !ok || !types.Identical(sl.Elem(), elem) {
				continue
			}
			if obj, _, _ := types.LookupFieldOrMethod(t.Type(), true, nil, method); obj != nil {
				if _, isF := obj.(*types.Func); isF {
					return t.Type()
				}
			}
		}
	}
	return nil
}
