package main

// Driver: verify one function against its contract; discharge obligations.

import (
	"fmt"
	"go/token"
	"go/types"
	"regexp"
	"runtime"
	"sort"
	"strings"
	"sync"

	"golang.org/x/tools/go/ssa"
)

type smtSig struct {
	args []string
	res  string
}

// parseSMTFuncs extracts name -> signature from define-fun / define-fun-rec / declare-fun lines.
func parseSMTFuncs(lines []string) map[string]smtSig {
	out := map[string]smtSig{}
	for _, l := range append(strings.Split(basePrelude, "\n"), lines...) {
		toks := sexprTop(l)
		if len(toks) < 4 {
			continue
		}
		switch toks[0] {
		case "define-fun", "define-fun-rec":
			var args []string
			for _, a := range sexprTop(strip(toks[2])) {
				p := sexprTop(strip(a))
				if len(p) == 2 {
					args = append(args, p[1])
				}
			}
			out[toks[1]] = smtSig{args: args, res: toks[3]}
		case "declare-fun":
			out[toks[1]] = smtSig{args: sexprTop(strip(toks[2])), res: toks[3]}
		case "declare-const":
			out[toks[1]] = smtSig{res: toks[2]}
		}
	}
	return out
}

func strip(s string) string {
	s = strings.TrimSpace(s)
	if strings.HasPrefix(s, "(") && strings.HasSuffix(s, ")") {
		return s[1 : len(s)-1]
	}
	return s
}

// sexprTop splits "(a (b c) d)" or "a (b c) d" into its top-level elements.
func sexprTop(s string) []string {
	s = strings.TrimSpace(s)
	if strings.HasPrefix(s, "(") && matching(s) == len(s)-1 {
		s = s[1 : len(s)-1]
	}
	var out []string
	depth := 0
	start := -1
	for i := 0; i < len(s); i++ {
		c := s[i]
		switch {
		case c == '(':
			if depth == 0 && start < 0 {
				start = i
			}
			depth++
		case c == ')':
			depth--
			if depth == 0 && start >= 0 {
				out = append(out, s[start:i+1])
				start = -1
			}
		case c == ' ' || c == '\t' || c == '\n':
			if depth == 0 && start >= 0 {
				out = append(out, s[start:i])
				start = -1
			}
		default:
			if start < 0 {
				start = i
			}
		}
	}
	if start >= 0 {
		out = append(out, s[start:])
	}
	return out
}

func matching(s string) int {
	depth := 0
	for i := 0; i < len(s); i++ {
		if s[i] == '(' {
			depth++
		} else if s[i] == ')' {
			depth--
			if depth == 0 {
				return i
			}
		}
	}
	return -1
}

// ------------------------------------------------------------------------------------------------

type FuncReport struct {
	Key      string
	Contract *Contract
	Obls     []*Obligation
	Trivial  int
	Paths    int
	Aborted  string
	Notes    []string
	Unknown  []string
	MayPanic []string
	TypeInvs []string
	Returns  int
	ReqSat   string
	GlobalsS string
	exec     *Exec
}

func newExec(p *Program) *Exec {
	return &Exec{prog: p, globals: map[string]string{}, unsignedFam: map[string]int{}, typeTags: map[string]int{}, oblIndex: map[string][]*Obligation{}, pathCap: 6000,
		loopCache: map[*ssa.Function]map[*ssa.BasicBlock]*loopInfo{}, funcIDs: map[string]int64{}, globalFuns: map[string]string{},
		unknown: map[string]bool{}, usedMayPanic: map[string]bool{}, usedTypeInv: map[string]bool{}}
}

// verifyFunction runs the symbolic executor over fn with contract ct.
func (p *Program) verifyFunction(fn *ssa.Function, ct *Contract) *FuncReport {
	x := newExec(p)
	x.panicPaths = true
	key := funcKey(fn)
	rep := &FuncReport{Key: key, Contract: ct, exec: x}
	func() {
		defer func() {
			if r := recover(); r != nil {
				if a, ok := r.(abortErr); ok {
					rep.Aborted = a.msg
					return
				}
				buf := make([]byte, 4096)
				buf = buf[:runtime.Stack(buf, false)]
				lines := strings.Split(string(buf), "\n")
				var where []string
				for _, l := range lines {
					if strings.Contains(l, "/verif/gocv/") && !strings.Contains(l, "driver.go") {
						where = append(where, strings.TrimSpace(l))
						if len(where) >= 3 {
							break
						}
					}
				}
				rep.Aborted = fmt.Sprintf("internal error: %v at %s", r, strings.Join(where, " <- "))
			}
		}()
		// a loop invariant for a loop the function does not have would be ignored silently
		nloops := len(x.loopsOf(fn))
		for _, cl := range ct.Invs {
			if cl.Loop >= nloops {
				x.abort("contract has an invariant for loop %d but the function has %d loop(s)", cl.Loop, nloops)
			}
		}
		x.verify(fn, ct, rep)
	}()
	rep.Obls = x.obls
	rep.Trivial = x.trivial
	rep.Paths = x.paths
	rep.Notes = x.notes
	for k := range x.unknown {
		rep.Unknown = append(rep.Unknown, k)
	}
	for k := range x.usedMayPanic {
		rep.MayPanic = append(rep.MayPanic, k)
	}
	for k := range x.usedTypeInv {
		rep.TypeInvs = append(rep.TypeInvs, k)
	}
	sort.Strings(rep.Unknown)
	sort.Strings(rep.MayPanic)
	sort.Strings(rep.TypeInvs)
	return rep
}

func (x *Exec) verify(fn *ssa.Function, ct *Contract, rep *FuncReport) {
	st := &State{heap: map[string]Term{}, cells: map[int]*Cell{}}
	st.alloc = x.global("alloc@0", SInt)
	st.assume(Ge(st.alloc, TOne))
	fc := &FuncCtx{fn: fn, key: funcKey(fn), contract: ct, alloc0: st.alloc, allowed: map[string]bool{}, allowedAt: map[string][]string{}}
	x.curFunc = fc
	for _, a := range ct.Assigns {
		a = x.prog.cs.expand(a)
		// `except <expr>`: the object <expr> (at entry) is not written although its leaf is in the frame
		if i := strings.Index(a, " except "); i >= 0 {
			fc.except = append(fc.except, frameExcept{item: strings.TrimSpace(a[:i]), expr: strings.TrimSpace(a[i+len(" except "):])})
			a = strings.TrimSpace(a[:i])
		}
		if i := strings.Index(a, "@"); i >= 0 {
			// restricted to one object (as it was at entry): checked per write in checkFrame
			fc.allowedAt[a[:i]] = append(fc.allowedAt[a[:i]], a[i+1:])
			continue
		}
		if strings.HasPrefix(a, "*") {
			// the location a pointer parameter points to
			for _, pv := range fn.Params {
				if pv.Name() == a[1:] {
					if pt, ok := pv.Type().Underlying().(*types.Pointer); ok {
						k := "deref " + typeKey(pt.Elem())
						fc.allowedAt[k] = append(fc.allowedAt[k], a[1:])
					}
				}
			}
			continue
		}
		fc.allowed[a] = true
	}
	fr := x.newFrame(fn, nil)
	fr.ctx = fc
	fc.top = fr
	// symbolic parameters and free variables
	for _, pv := range fn.Params {
		v := x.symbolic(st, pv.Type(), pv.Name(), true)
		// a function-typed parameter can be given a contract: field:<function key>#<parameter>
		x.tagOrigin(v, pv.Type(), funcKey(fn)+"#"+pv.Name())
		fr.env[pv] = v
		if x.entryParams == nil {
			x.entryParams = map[string]Value{}
		}
		x.entryParams[pv.Name()] = v
	}
	for _, fvv := range fn.FreeVars {
		// captured variable: pointer to a cell holding a symbolic value
		t := fvv.Type().(*types.Pointer).Elem()
		l := x.newCell(st, t, fvv.Name(), nil)
		c := st.cells[l.CellID]
		c.V = x.symbolic(st, t, fvv.Name(), true)
		x.tagOrigin(c.V, t, funcKey(fn)+"#"+fvv.Name())
		fr.env[fvv] = &PtrV{Loc: l, Elem: t}
	}
	// type invariants of pointer parameters are assumed when they are dereferenced (nilCheck).
	// preconditions
	fc.entry = st.clone()
	x.assumeInitFacts(st, fn, ct)
	gev := x.newEval(nil, st, nil)
	gev.callee = true
	for _, cl := range x.prog.cs.Assumes {
		st.assume(gev.boolExpr(cl.Expr))
	}
	ev := x.newEval(fr, st, nil)
	for _, cl := range ct.Requires {
		st.assume(ev.boolExpr(cl.Expr))
	}
	// ghost variables of the contract: cells of the top frame, resolved by name like locals
	for _, gv := range ct.GhostVars {
		var t types.Type = types.Typ[types.Int]
		if gv.Sort == "bool" {
			t = types.Typ[types.Bool]
		}
		if gv.Sort == "float" {
			t = types.Typ[types.Float64]
		}
		fake := &ssa.Alloc{Comment: gv.Name}
		l := x.newCell(st, t, gv.Name, fake)
		fr.cellOf[fake] = l.CellID
		if fc.ghost == nil {
			fc.ghost = map[string]int{}
		}
		fc.ghost[gv.Name] = l.CellID
		iv := x.newEval(fr, st, nil)
		st.quiet++
		v := iv.eval(gv.Init)
		st.quiet--
		x.store(st, l, v)
	}
	fc.entry = st.clone()
	x.reqNode = st.log
	st.written = map[string]bool{}
	fr.ret = func(st2 *State, results []Value) {
		rep.Returns++
		for _, r := range results {
			x.materialize(st2, r)
		}
		x.checkEnsures(fr, st2, ct, fn, results)
		x.endPath(st2, "return")
	}
	x.branch(func() { x.run(fr, st, fn.Blocks[0], nil, 0) })
}

func (x *Exec) checkEnsures(fr *Frame, st *State, ct *Contract, fn *ssa.Function, results []Value) {
	ev := x.newEval(fr, st, nil)
	rs := fn.Signature.Results()
	for i, r := range results {
		n := rs.At(i).Name()
		if n != "" && n != "_" {
			ev.bind[n] = r
		}
		ev.bind[fmt.Sprintf("result%d", i)] = r
	}
	if len(results) == 1 {
		ev.bind["result"] = results[0]
	}
	// postconditions speak about entry values of parameters
	for _, p := range fn.Params {
		ev.bind[p.Name()] = fr.env[p]
	}
	if rv, ok := st.callResult(fr.id, "builtin.recover", 1); ok {
		ev.bind["PANICKING"] = &Prim{T: Not(Eq(rv.(*IfaceV).Tag, TZero))}
	} else {
		ev.bind["PANICKING"] = &Prim{T: TFalse}
	}
	ev.bind["RECOVERED"] = &Prim{T: BoolLit(st.recovered)}
	for _, cl := range ct.Ensures {
		t := ev.boolExpr(cl.Expr)
		x.oblige(st, "ensures", cl.Label, t, cl.Tags, token.NoPos)
	}
	if ct.Refines != "" {
		ict := x.prog.cs.Funcs[ct.Refines]
		if ict == nil {
			x.abort("refines %s: no such interface contract", ct.Refines)
		}
		// bind the interface contract's names: receiver, parameters, results
		names := append([]string{}, ict.Params...)
		var vals []Value
		if fn.Signature.Recv() != nil && len(fn.Params) > 0 {
			for _, p := range fn.Params {
				vals = append(vals, fr.env[p])
			}
		}
		for i, n := range names {
			if i < len(vals) {
				ev.bind[n] = vals[i]
			}
		}
		for i, n := range ict.Results {
			if i < len(results) {
				ev.bind[n] = results[i]
			}
		}
		recvName := ""
		if len(names) > 0 {
			recvName = names[0]
		}
		for i, cl := range ict.Ensures {
			if recvName != "" && strings.Contains(cl.Src, recvName+".") {
				continue // speaks about ghost model fields of the operator: not refined here
			}
			label := cl.Label
			if label == "" {
				label = fmt.Sprintf("clause%d", i)
			}
			t := ev.boolExpr(cl.Expr)
			x.oblige(st, "refines", shortKey(ct.Refines)+":"+label, t, []string{"C18"}, token.NoPos)
		}
	}
}

// ------------------------------------------------------------------------------------------------
// Discharging

var quantVarRe = regexp.MustCompile(`!q\d*`)

func (p *Program) discharge(rep *FuncReport, budget int, workers int) {
	x := rep.exec
	// declarations of global functions go to the post-prelude of this exec
	var gf strings.Builder
	for _, n := range x.globalFunOrder {
		sig := x.globalFuns[n]
		i := strings.LastIndex(sig, ") ")
		fmt.Fprintf(&gf, "(declare-fun %s %s %s)\n", n, sig[:i+1], sig[i+2:])
	}
	rep.GlobalsS = gf.String()
	x.extraDecls = gf.String()
	var wg sync.WaitGroup
	sem := make(chan struct{}, workers)
	for _, ob := range rep.Obls {
		ob := ob
		wg.Add(1)
		sem <- struct{}{}
		go func() {
			defer wg.Done()
			defer func() { <-sem }()
			if ob.pre {
				return
			}
			r := x.solveObligation(ob.node, budget)
			ob.result = r
			ob.status = r.Status
		}()
	}
	wg.Wait()
}

func hasNL(n *LogNode) bool {
	for ; n != nil; n = n.Parent {
		if n.NL {
			return true
		}
	}
	return false
}

// solveObligation tries cheap abstractions of the query first (relevance slicing, nonlinear
// definitions dropped - both only weaken the hypotheses, so `unsat` is conclusive) and falls back to
// the full query through the portfolio. A `sat` answer is only accepted for the full query.
func (x *Exec) solveObligation(n *LogNode, budget int) SolveResult {
	var spent int64
	try := func(q string, solver int, secs int, label string) (SolveResult, bool) {
		r := runSolver(solvers[solver], q, secs, false)
		spent += r.Ms
		if r.Status == "unsat" {
			r.Ms = spent
			r.Solver += label
			return r, true
		}
		return r, false
	}
	sliced := x.buildQueryOpt(n, true, true)
	if r, ok := try(sliced, 1, 2, "(sliced)"); ok {
		return r
	}
	full := x.buildQuery(n)
	r, ok := try(full, 0, 3, "")
	if ok {
		return r
	}
	if r.Status == "sat" {
		r.Ms = spent
		return r
	}
	if r, ok := try(sliced, 0, 3, "(sliced)"); ok {
		return r
	}
	closure := x.buildQuerySliced(n, true, true, true)
	for _, s := range []int{1, 0} {
		if r, ok := try(closure, s, 3, "(sliced-closure)"); ok {
			return r
		}
	}
	if hasNL(n) {
		for _, q := range []string{x.buildQueryOpt(n, false, true), x.buildQueryOpt(n, true, false)} {
			for _, s := range []int{1, 0} {
				if r, ok := try(q, s, 3, "(abstracted)"); ok {
					return r
				}
			}
		}
	}
	r = solve(full, budget, false)
	r.Ms += spent
	return r
}
