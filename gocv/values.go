package main

// Go-side symbolic values, type flattening into heap leaves, locations.

import (
	"fmt"
	"go/types"
	"strings"

	"golang.org/x/tools/go/ssa"
)

type Value interface{}

// Prim: Int / Bool / F64 scalar (also strings as Int codes, chans, unsafe pointers, opaque ids).
type Prim struct {
	T   Term
	Typ types.Type // static Go type when known (used to resolve method calls in contracts)
	// DoneOf: this channel value is ctx.Done() of the context whose interface payload is DoneOf
	DoneOf *Term
}

// PtrV is a pointer. Loc == nil means the nil pointer constant.
type PtrV struct {
	Loc  *Loc
	Elem types.Type
}

type StructV struct {
	F   []Value
	Typ types.Type // the (possibly named) struct type
}

type ArrV struct {
	E   []Value
	Typ types.Type
}

type SliceV struct {
	Ptr, Off, Len, Cap Term
	Elem               types.Type
}

type IfaceV struct {
	Tag, Data Term
	Typ       types.Type // static interface type when known
}

type MapV struct {
	Ref Term
	Typ *types.Map
}

type TupleV struct{ E []Value }

// UndefV: a value that does not exist on this path (e.g. callres of a call that did not happen).
type UndefV struct{}

// FuncV is a function value: either a known function/closure or an opaque id loaded from the heap.
type FuncV struct {
	Fn     *ssa.Function
	Bind   []Value
	ID     Term   // opaque identity (always set)
	Origin string // where an opaque function value was loaded from (Type.field)
}

type LocKind int

const (
	LCell LocKind = iota // executor-side cell (local variable or not yet escaped allocation)
	LObj                 // heap object H|Root|path [Ref]
	LElem                // slice element A|Root|path [Ref][Idx]
	LGlobal              // package-level variable G|name|path
)

type Loc struct {
	Kind   LocKind
	CellID int
	Ref    Term
	Idx    Term
	Global string
	Root   types.Type // type of the whole object / element / global
	Path   []int      // struct field / array element indices below the root
	Typ    types.Type // type stored at this location
}

func (l *Loc) sub(i int, t types.Type) *Loc {
	n := *l
	n.Path = append(append([]int{}, l.Path...), i)
	n.Typ = t
	return &n
}

type Cell struct {
	V    Value
	Typ  types.Type
	Name string
	// Once a cell escapes it is materialised as heap object Ref of type Typ.
	Mat   bool
	Ref   Term
	Alloc *ssa.Alloc
	Arr   Term // set once a local array was moved into the element heap by slicing
}

// ------------------------------------------------------------------------------------------------
// Type flattening.

type Leaf struct {
	Path string // e.g. "SampleIDs.ptr"
	Sort string
	Typ  types.Type // Go type of the leaf's owner (for slice/iface sub-leaves the slice/iface type)
	Sub  string     // "", "ptr","off","len","cap","tag","data"
}

var opaqueScalar = map[string]string{
	"time.Time":    SInt,
	"sync.Once":    SInt, // 0 = not done, 1 = done
	"sync.Mutex":   SInt,
	"sync.RWMutex": SInt,
	"sync.WaitGroup": SInt,
	"sync.Pool":    SInt,
}

func typeKey(t types.Type) string {
	return types.TypeString(t, qual)
}

func isOpaque(t types.Type) (string, bool) {
	if n, ok := t.(*types.Named); ok {
		if s, ok := opaqueScalar[typeKey(n)]; ok {
			return s, true
		}
	}
	return "", false
}

func sanitize(s string) string {
	var sb strings.Builder
	for _, r := range s {
		switch {
		case r >= 'a' && r <= 'z', r >= 'A' && r <= 'Z', r >= '0' && r <= '9', r == '_', r == '.', r == '$':
			sb.WriteRune(r)
		case r == '*':
			sb.WriteString("P$")
		case r == '[':
			sb.WriteString("L$")
		case r == ']':
			sb.WriteString("R$")
		default:
			sb.WriteString("_")
		}
	}
	return sb.String()
}

func primSort(t types.Type) (string, bool) {
	if s, ok := isOpaque(t); ok {
		return s, true
	}
	switch u := t.Underlying().(type) {
	case *types.Basic:
		switch {
		case u.Info()&types.IsBoolean != 0:
			return SBool, true
		case u.Info()&types.IsInteger != 0:
			return SInt, true
		case u.Info()&types.IsFloat != 0:
			return SF64, true
		case u.Info()&types.IsString != 0:
			return SInt, true
		case u.Kind() == types.UnsafePointer:
			return SInt, true
		case u.Kind() == types.UntypedNil:
			return SInt, true
		}
	case *types.Pointer, *types.Map, *types.Chan, *types.Signature:
		return SInt, true
	}
	return "", false
}

func leavesOf(t types.Type) []Leaf {
	var out []Leaf
	var rec func(t types.Type, prefix string)
	rec = func(t types.Type, prefix string) {
		if s, ok := primSort(t); ok {
			out = append(out, Leaf{Path: prefix, Sort: s, Typ: t})
			return
		}
		switch u := t.Underlying().(type) {
		case *types.Slice:
			for _, sub := range []string{"ptr", "off", "len", "cap"} {
				out = append(out, Leaf{Path: join(prefix, sub), Sort: SInt, Typ: t, Sub: sub})
			}
		case *types.Interface:
			for _, sub := range []string{"tag", "data"} {
				out = append(out, Leaf{Path: join(prefix, sub), Sort: SInt, Typ: t, Sub: sub})
			}
		case *types.Struct:
			for i := 0; i < u.NumFields(); i++ {
				rec(u.Field(i).Type(), join(prefix, fieldName(u, i)))
			}
		case *types.Array:
			for i := int64(0); i < u.Len(); i++ {
				rec(u.Elem(), join(prefix, fmt.Sprintf("%d", i)))
			}
		case *types.Tuple:
			for i := 0; i < u.Len(); i++ {
				rec(u.At(i).Type(), join(prefix, fmt.Sprintf("%d", i)))
			}
		default:
			panic(fmt.Sprintf("leavesOf: unsupported type %s", t))
		}
	}
	rec(t, "")
	return out
}

func fieldName(s *types.Struct, i int) string {
	n := s.Field(i).Name()
	if n == "_" {
		return fmt.Sprintf("_%d", i)
	}
	return n
}

func join(a, b string) string {
	if a == "" {
		return b
	}
	if b == "" {
		return a
	}
	return a + "." + b
}

// pathString converts an index path below root type into the leaf path prefix.
func pathString(root types.Type, path []int) string {
	t := root
	s := ""
	for _, i := range path {
		switch u := t.Underlying().(type) {
		case *types.Struct:
			s = join(s, fieldName(u, i))
			t = u.Field(i).Type()
		case *types.Array:
			s = join(s, fmt.Sprintf("%d", i))
			t = u.Elem()
		default:
			panic("pathString: bad path")
		}
	}
	return s
}

// zeroValue builds the zero Value of a type.
func zeroValue(t types.Type) Value {
	if s, ok := primSort(t); ok {
		switch t.Underlying().(type) {
		case *types.Pointer:
			return &PtrV{Loc: nil, Elem: t.Underlying().(*types.Pointer).Elem()}
		case *types.Map:
			return &MapV{Ref: TZero, Typ: t.Underlying().(*types.Map)}
		case *types.Signature:
			return &FuncV{ID: TZero}
		}
		return &Prim{T: ZeroOf(s)}
	}
	switch u := t.Underlying().(type) {
	case *types.Slice:
		return &SliceV{TZero, TZero, TZero, TZero, u.Elem()}
	case *types.Interface:
		return &IfaceV{Tag: TZero, Data: TZero, Typ: t}
	case *types.Struct:
		sv := &StructV{Typ: t}
		for i := 0; i < u.NumFields(); i++ {
			sv.F = append(sv.F, zeroValue(u.Field(i).Type()))
		}
		return sv
	case *types.Array:
		av := &ArrV{Typ: t}
		if u.Len() > 64 {
			return av // large array: all-zero, elements not materialised
		}
		for i := int64(0); i < u.Len(); i++ {
			av.E = append(av.E, zeroValue(u.Elem()))
		}
		return av
	}
	panic(fmt.Sprintf("zeroValue: unsupported type %s", t))
}

// flattenValue lists the leaf terms of a value in leavesOf(t) order.
func (x *Exec) flattenValue(st *State, v Value, t types.Type) []Term {
	var out []Term
	var rec func(v Value, t types.Type)
	rec = func(v Value, t types.Type) {
		if _, ok := primSort(t); ok {
			out = append(out, x.scalarTerm(st, v, t))
			return
		}
		switch u := t.Underlying().(type) {
		case *types.Slice:
			s := v.(*SliceV)
			out = append(out, s.Ptr, s.Off, s.Len, s.Cap)
		case *types.Interface:
			i := v.(*IfaceV)
			out = append(out, i.Tag, i.Data)
		case *types.Struct:
			sv := v.(*StructV)
			for i := 0; i < u.NumFields(); i++ {
				rec(sv.F[i], u.Field(i).Type())
			}
		case *types.Array:
			av := v.(*ArrV)
			for i := int64(0); i < u.Len(); i++ {
				rec(av.E[i], u.Elem())
			}
		default:
			panic(fmt.Sprintf("flattenValue: unsupported %s", t))
		}
	}
	rec(v, t)
	return out
}

// scalarTerm converts a one-leaf value into its SMT term. Pointers to cells are materialised.
func (x *Exec) scalarTerm(st *State, v Value, t types.Type) Term {
	switch w := v.(type) {
	case *Prim:
		return w.T
	case *PtrV:
		if w.Loc == nil {
			return TZero
		}
		return x.refOf(st, w.Loc)
	case *MapV:
		return w.Ref
	case *FuncV:
		return w.ID
	case nil:
		return TZero
	}
	panic(fmt.Sprintf("scalarTerm: %T for %s", v, t))
}

// buildValue is the inverse of flattenValue: consumes leaf terms.
func buildValue(t types.Type, get func(l Leaf) Term) Value {
	var rec func(t types.Type, prefix string) Value
	rec = func(t types.Type, prefix string) Value {
		if s, ok := primSort(t); ok {
			tm := get(Leaf{Path: prefix, Sort: s, Typ: t})
			return scalarValue(tm, t)
		}
		switch u := t.Underlying().(type) {
		case *types.Slice:
			g := func(sub string) Term { return get(Leaf{Path: join(prefix, sub), Sort: SInt, Typ: t, Sub: sub}) }
			return &SliceV{g("ptr"), g("off"), g("len"), g("cap"), u.Elem()}
		case *types.Interface:
			g := func(sub string) Term { return get(Leaf{Path: join(prefix, sub), Sort: SInt, Typ: t, Sub: sub}) }
			return &IfaceV{Tag: g("tag"), Data: g("data"), Typ: t}
		case *types.Struct:
			sv := &StructV{Typ: t}
			for i := 0; i < u.NumFields(); i++ {
				sv.F = append(sv.F, rec(u.Field(i).Type(), join(prefix, fieldName(u, i))))
			}
			return sv
		case *types.Array:
			av := &ArrV{Typ: t}
			for i := int64(0); i < u.Len(); i++ {
				av.E = append(av.E, rec(u.Elem(), join(prefix, fmt.Sprintf("%d", i))))
			}
			return av
		}
		panic(fmt.Sprintf("buildValue: unsupported %s", t))
	}
	return rec(t, "")
}

func scalarValue(tm Term, t types.Type) Value {
	if _, ok := isOpaque(t); ok {
		return &Prim{T: tm, Typ: t}
	}
	switch u := t.Underlying().(type) {
	case *types.Pointer:
		return &PtrV{Loc: &Loc{Kind: LObj, Ref: tm, Root: u.Elem(), Typ: u.Elem()}, Elem: u.Elem()}
	case *types.Map:
		return &MapV{Ref: tm, Typ: u}
	case *types.Signature:
		return &FuncV{ID: tm}
	}
	return &Prim{T: tm, Typ: t}
}
