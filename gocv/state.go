package main

// Symbolic state: persistent assumption/obligation log, heap leaves, cells.

import (
	"fmt"
	"go/token"
	"go/types"
	"regexp"
	"sort"
	"strings"

	"golang.org/x/tools/go/ssa"
)

type LogKind int

const (
	KDecl   LogKind = iota // declare-const (Name, Sort)
	KAssume                // path assumption
	KOblige                // proof obligation at this point of the path
)

type LogNode struct {
	Parent *LogNode
	Kind   LogKind
	Name   string // decl: symbol; oblige: obligation name
	Sort   string
	T      Term
	Obl    *Obligation
	depth  int
	NL     bool // definitional equation of a nonlinear arithmetic term (may be dropped: abstraction)
}

type Obligation struct {
	Name   string // stable name  pkg.func#kind:label
	Kind   string
	Func   string
	Tags   []string // property ids
	Pos    string
	node   *LogNode
	status string // filled by the solver stage
	result SolveResult
	Cond   Term
	pre    bool // decided while generating (condition folded to true): no solver call
}

type deferred struct {
	frame int
	run   func(st *State, k func(st *State))
}

type State struct {
	log    *LogNode
	heap   map[string]Term // leaf key -> current array term
	cells  map[int]*Cell
	alloc  Term // allocation frontier (all live refs are < alloc)
	defers []deferred
	// ghost flags
	panicking bool
	recovered bool
	panicVal  Value
	panicPos  token.Pos
	active    []*loopRun
	written   map[string]bool
	epoch     int
	nonNil    map[string]bool
	quiet     int
	havocPats []string
	calls     *callEntry // completed calls on this path (persistent list)
	lastLine  int
}

type callEntry struct {
	frame  int
	top    int // frame of the function under verification that inlined the caller
	key    string
	res    Value
	parent *callEntry
}

func (st *State) callCount(frame int, key string) int {
	n := 0
	for c := st.calls; c != nil; c = c.parent {
		if (c.frame == frame || c.top == frame) && c.key == key {
			n++
		}
	}
	return n
}

// callResult returns the result of the n-th (1-based) completed call of key in frame.
func (st *State) callResult(frame int, key string, n int) (Value, bool) {
	var all []Value
	for c := st.calls; c != nil; c = c.parent {
		if (c.frame == frame || c.top == frame) && c.key == key {
			all = append(all, c.res)
		}
	}
	// all is newest first
	if n < 1 || n > len(all) {
		return nil, false
	}
	return all[len(all)-n], true
}

func (st *State) clone() *State {
	n := &State{log: st.log, alloc: st.alloc, panicking: st.panicking, recovered: st.recovered, panicVal: st.panicVal, panicPos: st.panicPos, epoch: st.epoch, nonNil: st.nonNil, calls: st.calls, lastLine: st.lastLine}
	n.active = append([]*loopRun{}, st.active...)
	n.havocPats = append([]string{}, st.havocPats...)
	if st.written != nil {
		n.written = make(map[string]bool, len(st.written))
		for k := range st.written {
			n.written[k] = true
		}
	}
	n.heap = make(map[string]Term, len(st.heap))
	for k, v := range st.heap {
		n.heap[k] = v
	}
	n.cells = make(map[int]*Cell, len(st.cells))
	for k, c := range st.cells {
		cc := *c
		n.cells[k] = &cc
	}
	n.defers = append([]deferred{}, st.defers...)
	return n
}

func (st *State) push(n *LogNode) {
	n.Parent = st.log
	if st.log != nil {
		n.depth = st.log.depth + 1
	}
	st.log = n
}

func (st *State) assume(t Term) {
	if t.S == "true" || st.quiet > 0 {
		return
	}
	if t.Sort != SBool {
		panic("assume non-bool: " + t.S)
	}
	// top-level conjunctions become separate assertions (finer relevance slicing)
	if strings.HasPrefix(t.S, "(and ") {
		for _, c := range sexprTop(t.S)[1:] {
			st.assume(Term{c, SBool})
		}
		return
	}
	// (=> g (and a b)) becomes (=> g a), (=> g b)
	if strings.HasPrefix(t.S, "(=> ") {
		parts := sexprTop(t.S)
		if len(parts) == 3 && strings.HasPrefix(parts[2], "(and ") {
			for _, c := range sexprTop(parts[2])[1:] {
				st.assume(Term{"(=> " + parts[1] + " " + c + ")", SBool})
			}
			return
		}
	}
	st.push(&LogNode{Kind: KAssume, T: t})
}

// ------------------------------------------------------------------------------------------------

type Exec struct {
	entryParams map[string]Value // symbolic parameters of the function under verification (replay.go)
	spawnBinds map[string]Value // captured variables of the closure being spawned, by name
	spawning bool  // applying the contract of a function started with `go`
	hookRecv Value // receiver of the interface call whose `at` hooks are being evaluated
	prog     *Program
	fresh    int
	cellSeq  int
	obls     []*Obligation
	oblIndex map[string][]*Obligation
	// declarations of heap arrays and other global symbols that every query needs
	globals   map[string]string // symbol -> sort
	unsignedFam map[string]int // heap-leaf families of unsigned integer type: 1 = object field, 2 = array element
	globOrder []string
	typeTags  map[string]int
	tagTypes  []types.Type
	strCodes  map[string]int64
	curFunc   *FuncCtx
	paths     int
	pathCap   int
	notes     []string
	endStates []*endState

	trivial        int
	frameSeq       int
	loopCache      map[*ssa.Function]map[*ssa.BasicBlock]*loopInfo
	funcIDs        map[string]int64
	inFrameCheck   bool
	globalFuns     map[string]string
	globalFunOrder []string
	unknown        map[string]bool
	usedMayPanic   map[string]bool
	usedTypeInv    map[string]bool
	reqNode        *LogNode
	extraDecls     string
	initRecord     map[string][]mapUpd
	initMode       bool
	panicPaths     bool // explore the panic path of callees declared `panics may`
	curFrame       *Frame
}

type endState struct {
	st   *State
	kind string // "return", "cut", "panic", "abort"
}

func (x *Exec) freshName(hint string) string {
	x.fresh++
	return fmt.Sprintf("%s!%d", sanitize(hint), x.fresh)
}

func (x *Exec) freshConst(st *State, hint, sort string) Term {
	n := x.freshName(hint)
	st.push(&LogNode{Kind: KDecl, Name: n, Sort: sort})
	return Term{n, sort}
}

// name binds a (possibly large) term to a fresh constant to keep formulas small.
func (x *Exec) name(st *State, hint string, t Term) Term {
	if len(t.S) < 40 || st.quiet > 0 {
		return t
	}
	c := x.freshConst(st, hint, t.Sort)
	st.assume(Eq(c, t))
	return c
}

func (x *Exec) global(sym, sort string) Term {
	if s, ok := x.globals[sym]; ok {
		if s != sort {
			panic(fmt.Sprintf("global %s redeclared %s vs %s", sym, s, sort))
		}
	} else {
		x.globals[sym] = sort
		x.globOrder = append(x.globOrder, sym)
	}
	return Term{sym, sort}
}

// heapLeaf returns the current array for a heap leaf, creating the initial symbol on first use.
// kind "H": object fields, Array Int sort. kind "A": slice elements, Array Int (Array Int sort).
func (x *Exec) heapLeaf(st *State, kind string, root types.Type, path string, sort string) (string, Term) {
	key := kind + "|" + typeKey(root) + "|" + path
	if t, ok := st.heap[key]; ok {
		return key, t
	}
	var s string
	if kind == "A" {
		s = ArrSort(ArrSort(sort))
	} else {
		s = ArrSort(sort)
	}
	t := x.initialLeaf(st, key, s)
	st.heap[key] = t
	return key, t
}

// initialLeaf names the first use of a heap leaf on a path: the entry symbol, unless a callee's
// assigns clause havoced a pattern covering it earlier on the path.
func (x *Exec) initialLeaf(st *State, key, sort string) Term {
	for _, p := range st.havocPats {
		if keyMatches(key, p) {
			if st.quiet > 0 {
				// cannot declare inside a contract expression: use a per-pattern global symbol
				return x.global(sanitize(key)+"@h"+fmt.Sprint(len(st.havocPats)), sort)
			}
			return x.freshConst(st, sanitize(key), sort)
		}
	}
	return x.global(sanitize(key)+"@0", sort)
}

func keyMatches(key, pat string) bool {
	if !strings.HasPrefix(key, pat) {
		return false
	}
	if len(key) == len(pat) {
		return true
	}
	if strings.HasSuffix(pat, "|") || strings.HasSuffix(pat, ".") {
		return true
	}
	c := key[len(pat)]
	return c == '.' || c == '|'
}

func (x *Exec) setHeap(st *State, key string, t Term) {
	// name the new array version to keep terms small
	c := x.freshConst(st, sanitize(key), t.Sort)
	st.assume(Eq(c, t))
	st.heap[key] = c
}

// ghostLeaf: ghost heaps keyed by name, indexed by object ref.
func (x *Exec) ghostLeaf(st *State, name string, sort string) (string, Term) {
	key := "G|" + name
	if t, ok := st.heap[key]; ok {
		return key, t
	}
	t := x.initialLeaf(st, key, ArrSort(sort))
	st.heap[key] = t
	return key, t
}

func (x *Exec) typeTag(t types.Type) Term {
	k := typeKey(t)
	if id, ok := x.typeTags[k]; ok {
		return IntLit(int64(id))
	}
	id := len(x.typeTags) + 1
	x.typeTags[k] = id
	x.tagTypes = append(x.tagTypes, t)
	return IntLit(int64(id))
}

// strCode: string literals are Int codes that preserve the lexicographic order among the literals
// of the program ("" = 0 is the least string). Codes are assigned lazily from a table built once
// per program (see Program.collectStrings).
func (x *Exec) strCode(s string) Term {
	if c, ok := x.prog.strCodes[s]; ok {
		return IntLit(c)
	}
	// literal appearing only in contracts: registered at load time too; otherwise fall back
	panic("unregistered string literal: " + s)
}

func sortedKeys(m map[string]Term) []string {
	var ks []string
	for k := range m {
		ks = append(ks, k)
	}
	sort.Strings(ks)
	return ks
}

func (x *Exec) note(f string, a ...interface{}) {
	s := fmt.Sprintf(f, a...)
	for _, n := range x.notes {
		if n == s {
			return
		}
	}
	x.notes = append(x.notes, s)
}

// ------------------------------------------------------------------------------------------------
// Query construction from the log.

// collect returns the nodes from root to n.
func collect(n *LogNode) []*LogNode {
	var xs []*LogNode
	for ; n != nil; n = n.Parent {
		xs = append(xs, n)
	}
	for i, j := 0, len(xs)-1; i < j; i, j = i+1, j-1 {
		xs[i], xs[j] = xs[j], xs[i]
	}
	return xs
}

// buildQuery produces the SMT text asking whether obligation `ob` can fail given its prefix.
func (x *Exec) buildQuery(ob *LogNode) string { return x.buildQueryOpt(ob, false, false) }

var symRe = regexp.MustCompile(`[A-Za-z_][A-Za-z0-9_.$!@]*`)

func family(sym string) string {
	if i := strings.LastIndexAny(sym, "@!"); i > 0 {
		return sym[:i]
	}
	return sym
}

// families returns the heap-array families mentioned by a term.
func families(s string, arrays map[string]bool) map[string]bool {
	out := map[string]bool{}
	for _, m := range symRe.FindAllString(s, -1) {
		// only real heap leaves are sliced; ghost state (G_...) is small and always kept
		if arrays[m] && (strings.HasPrefix(m, "H_") || strings.HasPrefix(m, "A_") || strings.HasPrefix(m, "M_")) {
			out[family(m)] = true
		}
	}
	return out
}

// buildQueryOpt with dropNL leaves out the defining equations of nonlinear terms: the named
// constants become unconstrained, which only weakens the hypotheses (sound for proving).
// With slice, hypotheses that only talk about heap leaves the goal does not mention are left out
// as well (relevance slicing; again only weakens the hypotheses).
func (x *Exec) buildQueryOpt(ob *LogNode, dropNL bool, slice bool) string {
	return x.buildQuerySliced(ob, dropNL, slice, false)
}

// closure: the relevant families are closed under "mentioned together in a hypothesis".
func (x *Exec) buildQuerySliced(ob *LogNode, dropNL bool, slice bool, closure bool) string {
	nodes := collect(ob.Parent)
	var goalFam map[string]bool
	arrays := map[string]bool{}
	if slice {
		for g, srt := range x.globals {
			if strings.HasPrefix(srt, "(Array") {
				arrays[g] = true
			}
		}
		for _, n := range nodes {
			if n.Kind == KDecl && strings.HasPrefix(n.Sort, "(Array") {
				arrays[n.Name] = true
			}
		}
		goalFam = families(ob.T.S, arrays)
		if closure {
			fams := make([]map[string]bool, len(nodes))
			for i, n := range nodes {
				if n.Kind == KAssume || n.Kind == KOblige {
					fams[i] = families(n.T.S, arrays)
				}
			}
			for changed := true; changed; {
				changed = false
				for _, fs := range fams {
					hit := false
					for f := range fs {
						if goalFam[f] {
							hit = true
							break
						}
					}
					if hit {
						for f := range fs {
							if !goalFam[f] {
								goalFam[f] = true
								changed = true
							}
						}
					}
				}
			}
		}
	}
	keep := func(t string) bool {
		if !slice {
			return true
		}
		fs := families(t, arrays)
		if len(fs) == 0 {
			return true
		}
		for f := range fs {
			if goalFam[f] {
				return true
			}
		}
		return false
	}
	var sb strings.Builder
	sb.WriteString(x.prog.prelude())
	for _, g := range x.globOrder {
		fmt.Fprintf(&sb, "(declare-const %s %s)\n", g, x.globals[g])
	}
	sb.WriteString(x.extraDecls)
	head := sb.String()
	sb.Reset()
	for _, n := range nodes {
		switch n.Kind {
		case KDecl:
			fmt.Fprintf(&sb, "(declare-const %s %s)\n", n.Name, n.Sort)
		case KAssume:
			if dropNL && n.NL {
				continue
			}
			if !keep(n.T.S) {
				continue
			}
			fmt.Fprintf(&sb, "(assert %s)\n", n.T.S)
		case KOblige:
			// obligations already checked earlier on the path may be assumed
			if !keep(n.T.S) {
				continue
			}
			fmt.Fprintf(&sb, "(assert %s)\n", n.T.S)
		}
	}
	// type invariant of unsigned heap leaves: every cell of every version holds a value >= 0
	// (spec-level loads cannot assume it locally: they may sit under a binder)
	if len(x.unsignedFam) > 0 {
		sofar := sb.String() + ob.T.S
		seen := map[string]bool{}
		for _, m := range symRe.FindAllString(sofar, -1) {
			if seen[m] {
				continue
			}
			seen[m] = true
			kind, ok := x.unsignedFam[family(m)]
			if !ok || family(m) == m {
				continue
			}
			if kind == 2 {
				fmt.Fprintf(&sb, "(assert (forall ((r!u Int) (i!u Int)) (! (>= (select (select %s r!u) i!u) 0) :pattern ((select (select %s r!u) i!u)))))\n", m, m)
			} else {
				fmt.Fprintf(&sb, "(assert (forall ((r!u Int)) (! (>= (select %s r!u) 0) :pattern ((select %s r!u)))))\n", m, m)
			}
		}
	}
	fmt.Fprintf(&sb, "(assert (not %s))\n", ob.T.S)
	body := sb.String()
	return head + x.prog.postPreludeFor(body) + body
}

// buildFeasibility asks whether the path prefix ending at node n is satisfiable.
func (x *Exec) buildFeasibility(n *LogNode) string {
	var sb strings.Builder
	sb.WriteString(x.prog.prelude())
	for _, g := range x.globOrder {
		fmt.Fprintf(&sb, "(declare-const %s %s)\n", g, x.globals[g])
	}
	sb.WriteString(x.extraDecls)
	sb.WriteString(x.prog.postPrelude())
	for _, m := range collect(n) {
		switch m.Kind {
		case KDecl:
			fmt.Fprintf(&sb, "(declare-const %s %s)\n", m.Name, m.Sort)
		case KAssume, KOblige:
			fmt.Fprintf(&sb, "(assert %s)\n", m.T.S)
		}
	}
	return sb.String()
}
