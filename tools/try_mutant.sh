#!/bin/bash
# usage: try_mutant.sh <seeded id> <prop> [<prop> ...]   - applies the seeded patch to /repo, runs the checks, reverts the patch
# (with git apply -R, so that other uncommitted work in /repo is left alone).
id=$1; shift
cd /repo || exit 2
git apply /verif/seeded/$id/patch.diff || { echo "patch does not apply"; exit 2; }
for p in "$@"; do
  echo "--- $id / $p"
  /verif/check $p 2>&1 | grep -v "^UNDECIDED" | tail -6
  echo "exit=${PIPESTATUS[0]}"
done
git apply -R /verif/seeded/$id/patch.diff
git status --short | grep -v zz_contracts | head
