# Table consumed by mkmanifest.py. Keep in step with DESIGN.md section 4.
NOT_BUILT = "no contract-level check has been built for this property yet (work in progress); not claimed"

claim("C02",
      "Proof of the listed obligations: selectPoint's functional contract (latest sample at or before ts-offset, present iff within lookback and not stale, both directions), the shard partition/re-signing contract of seriesShard, for all inputs; discharged by SMT from the real SSA.",
      "Assumes the ghost-series contract of storage.MemoizedSeriesIterator (specs/10_iterators.spec), mathematical integers, gocv's Go semantics. Not covered: goroutine scheduling in coalesce/concurrent operators.",
      "DESIGN.md 4 C02")

for pid in ["C01","C03","C04","C05","C06","C07","C08","C09","C10","C11","C12","C13","C15","C16","C17","C18","C19","C20"]:
    NA[pid] = NOT_BUILT
NA["C14"] = "liveness/schedule property (bounded-time return, deadlock freedom, goroutine termination): no pre/postcondition or invariant of a sequential contract expresses it and gocv has no concurrency model"
