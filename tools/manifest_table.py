# Table consumed by mkmanifest.py. Keep in step with DESIGN.md section 4.
COMMON_NOTE = ("Trusted: go/ssa front end, gocv's semantics of the Go subset, the SMT solvers, mathematical integers, "
               "uninterpreted float arithmetic, assumed contracts of dependencies (specs/*.spec, listed in the evidence), "
               "sync.Pool ownership discipline. Goroutine scheduling and channel protocols (exchange.concurrencyOperator, "
               "coalesce.Next, worker) are outside the verified subset. ")

claim("C01",
      "Proof of the listed obligations (partial for the property): Exec's result assembly (points of every batch are kept, result type, stamping), plan construction (every operator is built from its node's own parameters, children in order, windows and options passed unchanged), plus the per-operator obligations tagged C01. Composition over whole expression trees is argued in DESIGN.md, not machine-checked.",
      COMMON_NOTE + "Equality with the reference engine on every expression tree is not decided; float values only up to uninterpreted arithmetic.",
      "DESIGN.md 4 C01")
claim("C02",
      "Proof of the listed obligations: selectPoint's functional contract (latest sample at or before ts-offset, present iff within lookback and not stale, both directions), the shard partition/re-signing contract, selector construction from the query options, per-query lookback routing, window arithmetic of getTimeRangesForVectorSelector; for all inputs.",
      COMMON_NOTE + "Assumes the ghost-series contract of storage.MemoizedSeriesIterator (specs/10_iterators.spec).",
      "DESIGN.md 4 C02")
claim("C06",
      "Proof of the listed obligations (partial): functionOperator.Next applies the function to every sample with the step's time and the scalar arguments of that very step (NaN where absent), drops exactly the samples without a function value, scalar(v) delivers one sample per step (NaN unless exactly one element); time()/pi() deliver one sample (id 0) computed from the step time at every step of the grid; an @-pinned child is evaluated once and every step of the outer grid gets a copy of that same vector in buffers of its own; unary minus negates every vector of its child's batch and serves batches without a prior Series() call; number literals deliver the literal at every step; histogram_quantile emits one vector per step with the quantile of that step and empties its buckets between steps.",
      COMMON_NOTE + "Value rules of the individual instant functions (the Funcs table), bucketQuantile (trusted) are not under contract; timestamp() of a bare selector returns 0 (known, unfixed, no obligation covers it); sibling lock-step (equal batch lengths of the arguments) is assumed from C18.",
      "DESIGN.md 4 C06")
claim("C07",
      "Proof of the listed obligations: NumSteps; the step grid of every leaf operator (number literal, vector selector, matrix selector, time()/pi(), step-invariant: first step = cursor, one vector per step, none beyond the window end, maximal batches, cursor advance); per-step purity of the stateful operators under contract (selectPoints' window is exactly the fresh window whatever was carried over; binary duplicate tags never match across steps; topk heaps and histogram buckets empty between steps; every accumulator forgets on Reset; pinned vector cached once); one output vector per input vector for function, unary, scalar-binary, aggregation and histogram operators; windows passed unchanged through plan construction; Exec keeps every batch.",
      COMMON_NOTE + "The law itself is a corollary argued in DESIGN.md from these obligations; the grouped scalar table's loops and the join index are not covered.",
      "DESIGN.md 4 C07")
claim("C08",
      "Proof: every error of plan construction is classified unsupported/not-implemented (or remote), for every node kind and function name symbolically; triggerFallback is exactly that classification; NewInstantQuery/NewRangeQuery pass the very same arguments to the Prometheus engine, bump the counter once with the path taken, and reject at creation when fallback is disabled.",
      COMMON_NOTE + "That natively supported constructs are evaluated exactly is C01-C07, not decided here.",
      "DESIGN.md 4 C08")
claim("C10",
      "Proof of the listed obligations (partial): only sum, min, max, group, count, topk, bottomk are pushed down and never a binary expression; every distributive aggregation is distributed where it stands (local re-aggregation: count becomes sum, otherwise the same operator, same parameter/grouping/by-without) and the traversal stops there; one sub-query per engine whose text is the replaced sub-tree; remote results are re-read as the identity (lookback 0, offset 0, one shard, same grid) without writing the shared query options; remote queries are issued on the query's window and step; rewrites land in the plan.",
      COMMON_NOTE + "That those seven aggregations distribute over a disjoint union is the classical algebraic fact, not machine-checked; commutation of the whole rewrite with union for every tree shape is not decided; storageAdapter is not under contract.",
      "DESIGN.md 4 C10")
claim("C11",
      "Proof of the listed obligations (partial): the shard count is at least one, shards partition the series list for every count and index, every shard gets the same selector/options/offset.",
      COMMON_NOTE + "Independence of goroutine interleavings and storage order is not decidable by contracts.",
      "DESIGN.md 4 C11")
claim("C12",
      "Proof of the listed obligations (partial): frame conditions - the functions under contract on the query path write only memory allocated by the query (or the fields named in their assigns clause); no engine-level or package-level state is written; pools and selector pools are allocated per query.",
      COMMON_NOTE + "Data-race freedom between the goroutines of one query is not decidable by contracts.",
      "DESIGN.md 4 C12")
claim("C13",
      "Proof for the functions under contract: every implicit panic site (index, nil, division, conversion, type assertion, make) is discharged under the function's precondition; explicit panics are unreachable or recovered; recoverEngine turns every recovered panic into the query error and Exec always returns a result.",
      COMMON_NOTE + "Goroutine entry points without recover (concurrencyOperator.pull, coalesce, worker) are not covered.",
      "DESIGN.md 4 C13")
claim("C15",
      "Proof of the listed obligations: errors of Querier() and of the series set are returned by the series loader; iterator failures surface from selectPoint and selectPoints, Exec records the first error and reports success only after the stream signalled its end; newErrResult keeps the first error.",
      COMMON_NOTE + "Error hand-off through channels is assumed.",
      "DESIGN.md 4 C15")
claim("C16",
      "Proof: hints handed to each sub-expression and each storage select follow the reference's path rules (function hint from the nearest enclosing call/aggregation, cut at binary expressions; grouping only for the direct operand of an aggregation), time ranges equal the reference arithmetic, matchers/step/range are the node's; selected samples lie within the hinted range.",
      COMMON_NOTE + "The reference rules are a transcription of promql/engine.go (trusted).",
      "DESIGN.md 4 C16")
claim("C17",
      "Proof of the listed obligations (partial): the one function that opens a storage querier closes it exactly once on every way out (normal return, storage error, panic of a storage callback); constructors do not touch the storage; shards are fresh copies; every in-place label edit (DropMetricName/dropLabel) is applied to a private copy only - at the call sites in the scalar operator, the function operator, the matrix selector's loader and histogram_quantile.",
      COMMON_NOTE + "sort.Sort on the un-copied labels of last_over_time and the unary operator's builder are not checked for writes; that loadSeries runs no later than Exec is not decided.",
      "DESIGN.md 4 C17")
claim("C18",
      "Proof of the listed obligations (partial): every operator under contract (number literal, vector selector, matrix selector, time()/pi(), function, unary, scalar-binary, step-invariant) refines the ghost-free clauses of the stream contract - error means no batch, batch freshly allocated, ids and values pair up in buffers owned by the batch, no two step vectors share a buffer, strictly increasing steps - plus batch size/grid for the leaves, one vector per step for topk/bottomk, aggregations and histogram_quantile, ids within the series list for function and histogram operators, workers started before use.",
      COMMON_NOTE + "vectorOperator (join), aggregate's tables, coalesce/concurrent (channels) are not covered; sample ids unique within a step is not proved; concurrent Next calls are a scheduling question.",
      "DESIGN.md 4 C18")
claim("C19",
      "Proof: Exec returns a sorted matrix without empty series for range queries, the expression's type for instant queries with every sample stamped with the evaluation time; selectPoint and selectPoints never yield a staleness marker; selectors emit steps on the grid and never beyond the window end; histogram output series are keyed by the label set they report (no two output series with the same labels from that grouping); aggregations with without() drop the metric name.",
      COMMON_NOTE + "Pairwise-distinct label sets after a name drop in general (abs({__name__=~\"a|b\"}) returns duplicates where the reference errors) and sortedness of each operator's label sets are not decided.",
      "DESIGN.md 4 C19")
claim("C20",
      "Proof: the returned points live in memory allocated by Exec; the functions under contract write no engine-level or package-level state (frame conditions); selector pool and vector pools are created per query.",
      COMMON_NOTE + "The embedded Prometheus engine and the metrics registry are assumed stateless for queries.",
      "DESIGN.md 4 C20")

claim("C03",
      "Proof of the listed obligations: selectPoints returns exactly the non-stale samples of the series inside [mint, maxt], in order (soundness plus completeness stated as gap conditions over a ghost index map), for every carried-over window; matrixSelector.Next evaluates every series at every step of the grid on the window [t-offset-range, t-offset], hands the function exactly those points with the step time, range and offset, and discharges selectPoints' buffer-coverage precondition for every relation of range and step (first step: full range; later steps: buffer delta = min(range, step)); extrapolatedRate (rate/increase/delta) computes the reference formula operation by operation; range hints and windows equal the reference arithmetic.",
      COMMON_NOTE + "Assumes the ghost-series contract of storage.BufferedSeriesIterator (specs/10_iterators.spec) and that range functions stamp their result with the step time; matrixSelector.loadSeries is trusted (only its label ownership is verified); the values of the other range functions are not yet under contract. Float arithmetic is uninterpreted: equality of values means same operations on the same operands in the same order.",
      "DESIGN.md 4 C03")
claim("C04",
      "Proof of the listed obligations (partial): aggregate.Next and kAggregate.Next deliver one output vector per input vector and pair the parameter of each step with that step; topk/bottomk: k below one selects nothing, a k outside int64 is the reference's error, every step appends exactly one vector and leaves the heaps empty; every accumulator of the grouped table (9 operators x AddFunc/ValueFunc/HasValue/Reset) follows the reset/add/has-value protocol and sum/count/max/min/avg/group fold the samples as the reference does (NaN rule of max/min included); output labels: without(...) deletes the grouping labels and the metric name, by(...) keeps only the grouping labels; the ungrouped vectorized table is stamped and valued per step.",
      COMMON_NOTE + "Group formation (label hashing into tables), scalarTable's own loops, stddev/stdvar/quantile values and which k elements topk keeps are not yet under contract; initializeTables/init are trusted; the worker hand-off and the labels.Builder algebra are assumed.",
      "DESIGN.md 4 C04")
claim("C05",
      "Proof of the listed obligations (partial): table.execBinaryOperation evaluates one step (duplicates on the one side are an error whether or not the pair survives the filter, never for the many side; right samples pair only with left samples of the same step; operation gets (left, right); bool yields 1/0; filtered comparisons keep the operation's value; ids index the output series); scalarOperator.Next pairs every sample with the scalar of its own step (NaN when absent) in query operand order, bool yields 1/0, otherwise only kept samples, one output vector per input vector; scalarOperator.loadSeries drops the metric name exactly for arithmetic or bool operators and only on a private copy; operands are planned in order with the node's matching.",
      COMMON_NOTE + "The join index (which series match), result label sets of vector-vector operators (group_left labels are known to be appended unsorted) are not yet under contract.",
      "DESIGN.md 4 C05")
claim("C09",
      "Proof of the listed obligations (partial): merge-selects - a selector is only replaced by a recorded broader selector whose matchers are all matchers of the selector (compared by name, type and value, repeated label names included), every matcher of the selector is applied by the replacement or kept as a filter, and nothing else is applied; the in-engine filter passes a series iff every filter matcher holds with an absent label read as the empty string, keeps the select's order and signs the kept series densely; matcher propagation is applied only to arithmetic one-to-one operators matching on all labels, keeps every own matcher of each operand and adds only non-name matchers of the other operand; traversal hands the optimizers pointers into the plan (replacements are not lost); the selector cache key covers matchers, window and hints.",
      COMMON_NOTE + "The set-theoretic step from these premises to 'same series selected' (DESIGN.md 4 C09, lemmas L1 and L3) is a short pen-and-paper argument, not machine-checked; labels.Matcher.Matches and Labels.Get are uninterpreted; SortMatchers and the distributed optimizer are not under contract; results are not compared end to end.",
      "DESIGN.md 4 C09")
NA["C14"] = "liveness/schedule property (bounded-time return, deadlock freedom, goroutine termination): no pre/postcondition or invariant of a sequential contract expresses it and gocv has no concurrency model"
