# Table consumed by mkmanifest.py. Keep in step with DESIGN.md section 4.
COMMON_NOTE = ("Trusted: go/ssa front end, gocv's semantics of the Go subset, the SMT solvers, mathematical integers, "
               "uninterpreted float arithmetic, assumed contracts of dependencies (specs/*.spec, listed in the evidence), "
               "sync.Pool ownership discipline. Goroutine scheduling and channel protocols (exchange.concurrencyOperator, "
               "coalesce.Next, worker) are outside the verified subset. ")

claim("C01",
      "Proof of the listed obligations (partial for the property): Exec's result assembly (points of every batch are kept, result type, stamping), plan construction (every operator is built from its node's own parameters, children in order, windows and options passed unchanged), plus the per-operator obligations tagged C01. Composition over whole expression trees is argued in DESIGN.md, not machine-checked.",
      COMMON_NOTE + "Equality with the reference engine on every expression tree is not decided; float values only up to uninterpreted arithmetic.",
      "DESIGN.md 4 C01")
claim("C02",
      "Proof of the listed obligations: selectPoint's functional contract (latest sample at or before ts-offset, present iff within lookback and not stale, both directions), the shard partition/re-signing contract, selector construction from the query options, per-query lookback routing, window arithmetic of getTimeRangesForVectorSelector; for all inputs.",
      COMMON_NOTE + "Assumes the ghost-series contract of storage.MemoizedSeriesIterator (specs/10_iterators.spec).",
      "DESIGN.md 4 C02")
claim("C06",
      "Proof of the listed obligations (partial): number literals deliver one sample with the literal value at every step of any window; step-invariant children are planned on the single-step grid; scalar streams keep the points of all batches in Exec; function/negation operators receive the node's arguments.",
      COMMON_NOTE + "Value rules of the individual instant functions are not yet under contract.",
      "DESIGN.md 4 C06")
claim("C07",
      "Proof of the listed obligations: NumSteps, the step grid of leaf operators (first step = cursor, one vector per step, none beyond the window end, maximal batches, cursor advance), windows passed unchanged through plan construction, Exec keeps every batch.",
      COMMON_NOTE + "The law itself is a corollary argued in DESIGN.md from these obligations; stateful operators not yet under contract are not covered.",
      "DESIGN.md 4 C07")
claim("C08",
      "Proof: every error of plan construction is classified unsupported/not-implemented (or remote), for every node kind and function name symbolically; triggerFallback is exactly that classification; NewInstantQuery/NewRangeQuery pass the very same arguments to the Prometheus engine, bump the counter once with the path taken, and reject at creation when fallback is disabled.",
      COMMON_NOTE + "That natively supported constructs are evaluated exactly is C01-C07, not decided here.",
      "DESIGN.md 4 C08")
claim("C10",
      "Proof of the listed obligations (partial): remote results are re-read as the identity (lookback 0, offset 0, one shard, same grid), remote queries are issued on the query's window and step.",
      COMMON_NOTE + "Commutation of the distributed rewrite with union over partitions is not decided.",
      "DESIGN.md 4 C10")
claim("C11",
      "Proof of the listed obligations (partial): the shard count is at least one, shards partition the series list for every count and index, every shard gets the same selector/options/offset.",
      COMMON_NOTE + "Independence of goroutine interleavings and storage order is not decidable by contracts.",
      "DESIGN.md 4 C11")
claim("C12",
      "Proof of the listed obligations (partial): frame conditions - the functions under contract on the query path write only memory allocated by the query (or the fields named in their assigns clause); no engine-level or package-level state is written; pools and selector pools are allocated per query.",
      COMMON_NOTE + "Data-race freedom between the goroutines of one query is not decidable by contracts.",
      "DESIGN.md 4 C12")
claim("C13",
      "Proof for the functions under contract: every implicit panic site (index, nil, division, conversion, type assertion, make) is discharged under the function's precondition; explicit panics are unreachable or recovered; recoverEngine turns every recovered panic into the query error and Exec always returns a result.",
      COMMON_NOTE + "Goroutine entry points without recover (concurrencyOperator.pull, coalesce, worker) are not covered.",
      "DESIGN.md 4 C13")
claim("C15",
      "Proof of the listed obligations: iterator failures surface from selectPoint, Exec records the first error and reports success only after the stream signalled its end; newErrResult keeps the first error.",
      COMMON_NOTE + "Error hand-off through channels is assumed.",
      "DESIGN.md 4 C15")
claim("C16",
      "Proof: hints handed to each sub-expression and each storage select follow the reference's path rules (function hint from the nearest enclosing call/aggregation, cut at binary expressions; grouping only for the direct operand of an aggregation), time ranges equal the reference arithmetic, matchers/step/range are the node's; selected samples lie within the hinted range.",
      COMMON_NOTE + "The reference rules are a transcription of promql/engine.go (trusted).",
      "DESIGN.md 4 C16")
claim("C17",
      "Proof of the listed obligations (partial): constructors do not touch the storage; shards are fresh copies (the shared series list is not written).",
      COMMON_NOTE + "Close-exactly-once of queriers and label ownership of every operator are not yet under contract.",
      "DESIGN.md 4 C17")
claim("C18",
      "Proof of the listed obligations (partial): the stream contract for the leaf operators under contract (batch size, one vector per step in increasing order, ids/values of equal length, end of stream), never a stale value out of selectPoint.",
      COMMON_NOTE + "Operators not yet under contract are not covered; concurrent Next calls are a scheduling question.",
      "DESIGN.md 4 C18")
claim("C19",
      "Proof: Exec returns a sorted matrix without empty series for range queries, the expression's type for instant queries with every sample stamped with the evaluation time; selectPoint never yields a staleness marker.",
      COMMON_NOTE + "Pairwise-distinct label sets and sortedness of each operator's label sets are not decided.",
      "DESIGN.md 4 C19")
claim("C20",
      "Proof: the returned points live in memory allocated by Exec; the functions under contract write no engine-level or package-level state (frame conditions); selector pool and vector pools are created per query.",
      COMMON_NOTE + "The embedded Prometheus engine and the metrics registry are assumed stateless for queries.",
      "DESIGN.md 4 C20")

NOT_BUILT = "no contract-level check has been built for this property yet (work in progress); not claimed"
for pid in ["C03","C04","C05","C09"]:
    NA[pid] = NOT_BUILT
NA["C14"] = "liveness/schedule property (bounded-time return, deadlock freedom, goroutine termination): no pre/postcondition or invariant of a sequential contract expresses it and gocv has no concurrency model"
