# Table consumed by mkmanifest.py. Keep in step with DESIGN.md section 4.
COMMON_NOTE = ("Trusted: go/ssa front end, gocv's semantics of the Go subset, the SMT solvers, mathematical integers, "
               "uninterpreted float arithmetic, assumed contracts of dependencies (specs/*.spec, listed in the evidence), "
               "sync.Pool ownership discipline. Goroutine scheduling and channel protocols (exchange.concurrencyOperator, "
               "coalesce.Next, worker) are outside the verified subset. ")

claim("C01",
      "Proof of the listed obligations (partial for the property): Exec's result assembly (points of every batch are kept, result type, stamping), plan construction (every operator is built from its node's own parameters, children in order, windows and options passed unchanged), plus the per-operator obligations tagged C01. Composition over whole expression trees is argued in DESIGN.md, not machine-checked.",
      COMMON_NOTE + "Equality with the reference engine on every expression tree is not decided; float values only up to uninterpreted arithmetic.",
      "DESIGN.md 4 C01")
claim("C02",
      "Proof of the listed obligations: selectPoint's functional contract (latest sample at or before ts-offset, present iff within lookback and not stale, both directions), the shard partition/re-signing contract, selector construction from the query options, per-query lookback routing, window arithmetic of getTimeRangesForVectorSelector; for all inputs.",
      COMMON_NOTE + "Assumes the ghost-series contract of storage.MemoizedSeriesIterator (specs/10_iterators.spec).",
      "DESIGN.md 4 C02")
claim("C06",
      "Proof of the listed obligations (partial): functionOperator.Next applies the function to every sample with the step's time and the scalar arguments of that very step (NaN where a scalar argument has no sample), drops exactly the samples for which the function has no value, and scalar(v) delivers one sample per step, NaN unless v has exactly one element; number literals deliver the literal at every step of any window; step-invariant children are planned on the single-step grid; scalar streams keep the points of all batches in Exec.",
      COMMON_NOTE + "Value rules of the individual instant functions (the Funcs table), unary minus and histogram_quantile are not yet under contract; sibling lock-step (equal batch lengths of the arguments) is assumed from C18.",
      "DESIGN.md 4 C06")
claim("C07",
      "Proof of the listed obligations: NumSteps, the step grid of leaf operators (first step = cursor, one vector per step, none beyond the window end, maximal batches, cursor advance), windows passed unchanged through plan construction, Exec keeps every batch.",
      COMMON_NOTE + "The law itself is a corollary argued in DESIGN.md from these obligations; stateful operators not yet under contract are not covered.",
      "DESIGN.md 4 C07")
claim("C08",
      "Proof: every error of plan construction is classified unsupported/not-implemented (or remote), for every node kind and function name symbolically; triggerFallback is exactly that classification; NewInstantQuery/NewRangeQuery pass the very same arguments to the Prometheus engine, bump the counter once with the path taken, and reject at creation when fallback is disabled.",
      COMMON_NOTE + "That natively supported constructs are evaluated exactly is C01-C07, not decided here.",
      "DESIGN.md 4 C08")
claim("C10",
      "Proof of the listed obligations (partial): remote results are re-read as the identity (lookback 0, offset 0, one shard, same grid), remote queries are issued on the query's window and step.",
      COMMON_NOTE + "Commutation of the distributed rewrite with union over partitions is not decided.",
      "DESIGN.md 4 C10")
claim("C11",
      "Proof of the listed obligations (partial): the shard count is at least one, shards partition the series list for every count and index, every shard gets the same selector/options/offset.",
      COMMON_NOTE + "Independence of goroutine interleavings and storage order is not decidable by contracts.",
      "DESIGN.md 4 C11")
claim("C12",
      "Proof of the listed obligations (partial): frame conditions - the functions under contract on the query path write only memory allocated by the query (or the fields named in their assigns clause); no engine-level or package-level state is written; pools and selector pools are allocated per query.",
      COMMON_NOTE + "Data-race freedom between the goroutines of one query is not decidable by contracts.",
      "DESIGN.md 4 C12")
claim("C13",
      "Proof for the functions under contract: every implicit panic site (index, nil, division, conversion, type assertion, make) is discharged under the function's precondition; explicit panics are unreachable or recovered; recoverEngine turns every recovered panic into the query error and Exec always returns a result.",
      COMMON_NOTE + "Goroutine entry points without recover (concurrencyOperator.pull, coalesce, worker) are not covered.",
      "DESIGN.md 4 C13")
claim("C15",
      "Proof of the listed obligations: errors of Querier() and of the series set are returned by the series loader; iterator failures surface from selectPoint and selectPoints, Exec records the first error and reports success only after the stream signalled its end; newErrResult keeps the first error.",
      COMMON_NOTE + "Error hand-off through channels is assumed.",
      "DESIGN.md 4 C15")
claim("C16",
      "Proof: hints handed to each sub-expression and each storage select follow the reference's path rules (function hint from the nearest enclosing call/aggregation, cut at binary expressions; grouping only for the direct operand of an aggregation), time ranges equal the reference arithmetic, matchers/step/range are the node's; selected samples lie within the hinted range.",
      COMMON_NOTE + "The reference rules are a transcription of promql/engine.go (trusted).",
      "DESIGN.md 4 C16")
claim("C17",
      "Proof of the listed obligations (partial): the one function that opens a storage querier closes it exactly once on every way out - normal return, storage error and a panic raised by a storage callback; constructors do not touch the storage; shards are fresh copies (the shared series list is not written).",
      COMMON_NOTE + "Label ownership (no in-place edit of storage-owned label sets) is not yet under contract; that loadSeries runs no later than Exec is not decided.",
      "DESIGN.md 4 C17")
claim("C18",
      "Proof of the listed obligations (partial): the stream contract for the leaf operators under contract (batch size, one vector per step in increasing order, ids/values of equal length, end of stream), never a stale value out of selectPoint.",
      COMMON_NOTE + "Operators not yet under contract are not covered; concurrent Next calls are a scheduling question.",
      "DESIGN.md 4 C18")
claim("C19",
      "Proof: Exec returns a sorted matrix without empty series for range queries, the expression's type for instant queries with every sample stamped with the evaluation time; selectPoint never yields a staleness marker.",
      COMMON_NOTE + "Pairwise-distinct label sets and sortedness of each operator's label sets are not decided.",
      "DESIGN.md 4 C19")
claim("C20",
      "Proof: the returned points live in memory allocated by Exec; the functions under contract write no engine-level or package-level state (frame conditions); selector pool and vector pools are created per query.",
      COMMON_NOTE + "The embedded Prometheus engine and the metrics registry are assumed stateless for queries.",
      "DESIGN.md 4 C20")

claim("C03",
      "Proof of the listed obligations (partial): selectPoints hands a range function only non-stale samples inside the window and surfaces iterator failures; the matrix selector is built from the node's range, offset and options; extrapolatedRate (rate/increase/delta) computes the reference engine's formula operation by operation, for every window of at least two samples; range hints and windows equal the reference arithmetic.",
      COMMON_NOTE + "Completeness of the window (no in-window sample is lost when points are carried over from the previous step) and the values of the other range functions are not yet under contract. Float arithmetic is uninterpreted: equality of values means same operations on the same operands in the same order.",
      "DESIGN.md 4 C03")
claim("C04",
      "Proof of the listed obligations (partial): aggregate.Next and kAggregate.Next deliver one output vector per input vector and pair the parameter of each step with that step (the parameter operator is pulled once per input batch; NaN when absent); topk/bottomk: k below one selects nothing, a k outside int64 is the reference's error, every step appends exactly one vector and leaves the heaps empty; the vectorized (ungrouped) table is stamped and valued per step.",
      COMMON_NOTE + "Group formation (label hashing), the grouped scalar table, accumulator values (sum/avg/stddev/quantile) and which k elements topk keeps are not yet under contract; the worker hand-off is assumed.",
      "DESIGN.md 4 C04")
claim("C05",
      "Proof of the listed obligations (partial): table.execBinaryOperation evaluates one step - an output reached twice from the one side in the same step is an error whether or not the pair survives the comparison filter, never for the many side; a right sample pairs only with a left sample of the same step; the operation receives (left, right); bool yields 1/0 and a filtered comparison keeps the operation's value; output ids index the output series; operands are planned in order with the node's matching.",
      COMMON_NOTE + "The join index (which series match), result label sets and the scalar forms are not yet under contract.",
      "DESIGN.md 4 C05")
claim("C09",
      "Proof of the listed obligations (partial): merge-selects - a selector is only replaced by a recorded broader selector whose matchers are all matchers of the selector (compared by name, type and value, repeated label names included), every matcher of the selector is applied by the replacement or kept as a filter, and nothing else is applied; the in-engine filter passes a series iff every filter matcher holds with an absent label read as the empty string, keeps the select's order and signs the kept series densely; matcher propagation is applied only to arithmetic one-to-one operators matching on all labels, keeps every own matcher of each operand and adds only non-name matchers of the other operand; traversal hands the optimizers pointers into the plan (replacements are not lost); the selector cache key covers matchers, window and hints.",
      COMMON_NOTE + "The set-theoretic step from these premises to 'same series selected' (DESIGN.md 4 C09, lemmas L1 and L3) is a short pen-and-paper argument, not machine-checked; labels.Matcher.Matches and Labels.Get are uninterpreted; SortMatchers and the distributed optimizer are not under contract; results are not compared end to end.",
      "DESIGN.md 4 C09")
NA["C14"] = "liveness/schedule property (bounded-time return, deadlock freedom, goroutine termination): no pre/postcondition or invariant of a sequential contract expresses it and gocv has no concurrency model"
