#!/bin/bash
# usage: seeded_matrix.sh [mNN ...]   (no arguments: all)
# Runs every seeded change against the checks of the properties it breaks; writes seeded/RESULTS.md.
# Works on a scratch copy of /repo (outside /repo and /verif, removed afterwards) with a private copy of the
# gocv binary and the current contracts/specs/baseline; neither /repo nor the evidence files are touched.
# (No second solver attempt here: the matrix only records whether the quick check raises an alarm; on /repo
# itself an undecided baseline obligation gets a second, longer attempt before it is reported.)
export GOFLAGS=-mod=mod GOPROXY=off GOSUMDB=off GOTOOLCHAIN=local
cd /verif
scratch=$(mktemp -d /tmp/verif-matrix-XXXXXX)
trap 'rm -rf "$scratch"' EXIT
cp bin/gocv "$scratch/gocv"
mkdir -p "$scratch/verif"; cp -r specs baseline known_findings.json "$scratch/verif/"
rsync -a --exclude .git /repo/ "$scratch/base/"
out=seeded/RESULTS.md
tmp="$scratch/RESULTS.md"
echo "| id | property | check | result | failing obligations (first 3) |" > $tmp
echo "|---|---|---|---|---|" >> $tmp
only="$*"
for d in seeded/m*/; do
  id=$(basename $d)
  if [ -n "$only" ] && ! echo " $only " | grep -q " $id "; then continue; fi
  props=$(python3 -c "import json;m=json.load(open('$d/meta.json'));print(' '.join(m['property'].replace(',',' ').split()+m.get('also',[])))")
  rm -rf "$scratch/repo"; cp -r "$scratch/base" "$scratch/repo"
  if ! (cd "$scratch/repo" && git apply "/verif/$d/patch.diff" 2>/dev/null); then echo "| $id | $props | - | patch no longer applies | |" >> $tmp; continue; fi
  for p in $props; do
    log=$(GOCV_NO_SECOND_ATTEMPT=1 GOCV_SELFTEST_DIR="$scratch" "$scratch/gocv" check -prop $p -tier quick -repo "$scratch/repo" -verif "$scratch/verif" 2>&1)
    if echo "$log" | grep -q "^VIOLATION"; then res="caught"; else res="MISSED"; fi
    obls=$(echo "$log" | grep "^VIOLATION" | sed 's/.*replays\/[A-Z0-9]*\///; s/\.json.*//' | head -3 | tr '\n' ';')
    echo "| $id | $props | $p | $res | $obls |" >> $tmp
  done
done
if [ -n "$only" ]; then
  # partial run: replace the rows of the given ids, keep the others
  for id in $only; do grep -v "^| $id |" $out > "$scratch/keep.md"; cp "$scratch/keep.md" $out; done
  tail -n +3 $tmp >> $out
else
  cp $tmp $out
fi
cat $out
