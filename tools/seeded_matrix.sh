#!/bin/bash
# Runs every seeded change against the checks of the properties it breaks; writes seeded/RESULTS.md.
# Applies each patch to /repo's working tree and reverts it afterwards (git apply -R).
export GOFLAGS=-mod=mod GOPROXY=off GOSUMDB=off GOTOOLCHAIN=local
cd /verif
out=seeded/RESULTS.md
echo "| id | property | check | result | failing obligations (first 3) |" > $out
echo "|---|---|---|---|---|" >> $out
for d in seeded/m*/; do
  id=$(basename $d)
  props=$(python3 -c "import json;m=json.load(open('$d/meta.json'));print(' '.join(m['property'].replace(',',' ').split()+m.get('also',[])))")
  if ! git -C /repo apply --check /verif/$d/patch.diff 2>/dev/null; then echo "| $id | $props | - | patch no longer applies | |" >> $out; continue; fi
  git -C /repo apply /verif/$d/patch.diff
  for p in $props; do
    log=$(./check $p 2>&1)
    if echo "$log" | grep -q "^VIOLATION"; then res="caught"; else res="MISSED"; fi
    obls=$(echo "$log" | grep "^VIOLATION" | sed 's/.*replays\/[A-Z0-9]*\///; s/\.json.*//' | head -3 | tr '\n' ';')
    echo "| $id | $props | $p | $res | $obls |" >> $out
  done
  git -C /repo apply -R /verif/$d/patch.diff
done
git -C /repo status --short | grep -v zz_contracts
cat $out
