#!/bin/bash
# usage: confirm_seed.sh <out-dir> <seed-id> <demo-file-name> <pkg-dir-relative-to-repo> [run-regex]
# Confirms a seeded change independently in a fresh scratch worktree of /repo (outside /repo and /verif):
#   (1) demo passes without the change, (2) demo fails with it, (3) the existing suite passes with it
#   (demo file absent). On success copies patch.diff, the demo and notes into /verif/seeded/<seed-id>/.
# The worktree and its build output are removed afterwards.
export GOFLAGS=-mod=mod GOPROXY=off GOSUMDB=off GOTOOLCHAIN=local
out=$1; id=$2; demo=$3; pkg=$4; run=${5:-.}
wt=/tmp/cf-$id
git -C /repo worktree remove --force $wt >/dev/null 2>&1
git -C /repo worktree add --detach $wt HEAD >/dev/null 2>&1 || { echo "cannot create worktree"; exit 2; }
cleanup() { git -C /repo worktree remove --force $wt >/dev/null 2>&1; rm -rf $wt; }
trap cleanup EXIT
cd $wt
res_without=FAIL; res_with=PASS; res_suite=FAIL
cp $out/$demo $pkg/zz_seeded_demo_test.go
if go test -vet=off -count=1 -timeout 10m -run "$run" ./$pkg >/tmp/cf-$id.without.log 2>&1; then res_without=PASS; fi
if ! git apply $out/patch.diff; then echo "patch does not apply"; exit 2; fi
if go test -vet=off -count=1 -timeout 10m -run "$run" ./$pkg >/tmp/cf-$id.with.log 2>&1; then res_with=PASS; else res_with=FAIL; fi
rm $pkg/zz_seeded_demo_test.go
if go build ./... && go test -vet=off -count=1 -timeout 25m ./... >/tmp/cf-$id.suite.log 2>&1; then res_suite=PASS; fi
echo "demo without change: $res_without   demo with change: $res_with   suite with change: $res_suite"
tail -3 /tmp/cf-$id.with.log
if [ $res_without = PASS ] && [ $res_with = FAIL ] && [ $res_suite = PASS ]; then
  d=/verif/seeded/$id; mkdir -p $d
  cp $out/patch.diff $d/patch.diff
  cp $out/$demo $d/demo_test.go.txt
  [ -f $out/notes.md ] && cp $out/notes.md $d/notes.md
  echo "CONFIRMED $id -> $d"
  rm -f /tmp/cf-$id.*.log
  exit 0
fi
echo "NOT CONFIRMED $id (logs /tmp/cf-$id.*.log)"
exit 1
