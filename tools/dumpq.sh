#!/bin/bash
# usage: dumpq.sh <func substr> <obligation substr> -> writes /tmp/q.smt2 (first matching undischarged obligation)
cd /verif; bin/gocv dev -func "$1" -dump 2>/dev/null > /tmp/dump.txt
python3 - "$2" <<'P'
import re,sys
s=open('/tmp/dump.txt').read()
parts=re.split(r'^---- ', s, flags=re.M)
for p in parts[1:]:
    head=p.split('\n',1)[0]
    if sys.argv[1] in head:
        q=p.split('\n',1)[1]
        # cut trailing solver output
        k=q.rfind('(assert (not')
        e=q.find('\n',k)
        open('/tmp/q.smt2','w').write(q[:e+1])
        print(head,len(q)); break
P
