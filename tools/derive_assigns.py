#!/usr/bin/env python3
"""Derive explicit `assigns` clauses for functions under contract that have none although other functions
under contract call them by contract (gocv frames). Starts from `assigns nothing`, reads the failing frame
obligations, adds the written leaves, repeats. The resulting clause is checked by gocv like any other."""
import re, subprocess, sys, os
os.environ.update(GOFLAGS='-mod=mod', GOPROXY='off', GOSUMDB='off', GOTOOLCHAIN='local')
def sh(c): return subprocess.run(c, shell=True, capture_output=True, text=True).stdout
funcs=[l.split()[0] for l in sh('cd /verif && bin/gocv frames 2>/dev/null').splitlines() if 'trusted=false' in l]
only=sys.argv[1:]
for key in funcs:
    if only and not any(o in key for o in only): continue
    i=key.index('.') if '/' not in key else key.index('.', key.rindex('/'))
    pkg, name = key[:i], key[i+1:]
    path=f'/repo/{pkg}/zz_contracts_verif.go'
    src=open(path).read().split('\n')
    hdr=[n for n,l in enumerate(src) if l.rstrip()=='//@ func '+name]
    if len(hdr)!=1: print('SKIP (header not found)', key); continue
    h=hdr[0]
    items=[]
    src.insert(h+1,'//@   assigns nothing')
    for it in range(6):
        src[h+1]='//@   assigns '+(', '.join(items) if items else 'nothing')
        open(path,'w').write('\n'.join(src))
        out=sh(f"cd /verif && bin/gocv dev -func '{key}' 2>&1")
        blocks=out.split('== ')
        mine=[b for b in blocks if b.startswith(key+':')]
        if not mine: print('no report for', key); break
        bad=[l for l in mine[0].splitlines() if '#frame:' in l and not l.strip().startswith('unsat')]
        new=[]
        for l in bad:
            k=l.split('#frame:')[1].strip()
            p=k.split('|')
            if p[0]=='A': c=f'elems({p[1]})'
            elif p[0]=='H': c=f'{p[1]}.{p[2].split(".")[0]}' if p[2] else f'{p[1]}.*'
            elif p[0]=='G': c=f'ghost {p[1]}'
            elif p[0]=='V': c=f'global {p[1]}'
            elif p[0]=='M': c=f'{p[1]}.*'
            else: c='?'+k
            if c not in items and c not in new: new.append(c)
        if not new:
            other=[l for l in mine[0].splitlines() if l.startswith('   ') and not l.strip().startswith('unsat') and 'note:' not in l]
            print('OK  ', key, '->', src[h+1].strip(), ('  OTHER-FAILURES: '+str(len(other))) if other else '')
            break
        items+=new
    else:
        print('NOT CONVERGED', key, items)
