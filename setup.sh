#!/bin/bash
# Builds the verifier offline from files on disk.
set -e
export GOFLAGS=-mod=mod GOPROXY=off GOSUMDB=off GOTOOLCHAIN=local
cd "$(dirname "$0")/gocv"
mkdir -p ../bin
go build -o ../bin/gocv .
